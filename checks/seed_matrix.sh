#!/bin/bash
# seed_matrix.sh [name...]: run every seeded change of /verif/seeded (or the named ones) against the check of the
# property it breaks (and against C19 when that check stays quiet), on /repo with the change applied and reverted.
# Writes /verif/seeded/MATRIX.md. Evidence of these runs goes to a scratch directory (see try_patch.sh).
cd /verif || exit 2
names=("$@")
if [ ${#names[@]} -eq 0 ]; then names=($(ls seeded | grep -v MATRIX)); fi
out=/verif/seeded/MATRIX.md
tmp=$(mktemp)
for n in "${names[@]}"; do
  d=/verif/seeded/$n
  [ -f "$d/patch.diff" ] || continue
  id=${n%%-*}
  log=$(TRY_OUT=/tmp/try-out-matrix ./checks/try_patch.sh "$d/patch.diff" "$id" quick 2>&1)
  nv=$(echo "$log" | grep -c '^VIOLATION')
  rc=$(echo "$log" | sed -n 's/^exit=//p' | tail -1)
  if [ "$rc" != "0" ] && [ "$rc" != "1" ]; then echo "| $n | ERROR (check exited $rc, not a verdict) | 0 | |" | tee -a "$tmp"; continue; fi
  first=$(echo "$log" | grep '^VIOLATION' | head -1 | sed -e 's/.*obligation=//' | cut -c1-110)
  by="$id"
  if [ "$nv" -eq 0 ]; then
    log2=$(TRY_OUT=/tmp/try-out-matrix ./checks/try_patch.sh "$d/patch.diff" C19 quick 2>&1)
    nv2=$(echo "$log2" | grep -c '^VIOLATION')
    if [ "$nv2" -gt 0 ]; then by="C19"; nv=$nv2; first=$(echo "$log2" | grep '^VIOLATION' | head -1 | sed -e 's/.*obligation=//' | cut -c1-110); else by="MISSED"; fi
  fi
  echo "| $n | $by | $nv | \`$first\` |" | tee -a "$tmp"
done
{ echo "| seeded change | caught by | violations | first violated obligation |"; echo "|---|---|---|---|"; sort "$tmp"; } > "$out.new"
if [ $# -eq 0 ]; then mv "$out.new" "$out"; else cat "$out.new"; rm -f "$out.new"; fi
rm -f "$tmp"; rm -rf /tmp/try-out-matrix
