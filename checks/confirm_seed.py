#!/usr/bin/env python3
"""confirm_seed.py <srcdir> <id-name>: confirm a seeded change in a scratch worktree of /repo HEAD and,
if it (1) applies, (2) keeps the existing suite green, (3) makes its demo fail, (4) demo passes without it,
store it as /verif/seeded/<name>/ with meta.json. Scratch worktree is removed afterwards."""
import sys, os, re, json, subprocess, shutil, tempfile
src, name = sys.argv[1], sys.argv[2]
env = dict(os.environ, GOFLAGS='-mod=mod', GOPROXY='off', GOSUMDB='off', GOTOOLCHAIN='local')
def run(cmd, cwd):
    p = subprocess.run(cmd, shell=True, cwd=cwd, env=env, capture_output=True, text=True, timeout=1800)
    return p.returncode, (p.stdout + p.stderr)
wt = tempfile.mkdtemp(prefix='wt-confirm-', dir='/tmp')
os.rmdir(wt)
rc, out = run(f'git -C /repo worktree add -q --detach {wt} HEAD', '/')
result = {'name': name}
try:
    demo = [f for f in os.listdir(src) if f.startswith('demo')][0]
    head = open(os.path.join(src, demo)).read().split('\n')
    first = ' '.join(head[:3])
    m = re.search(r'place in (?:the )?(repository root|\S+?)/? .*?as (\S+_test\.go)', first)
    d = '' if m.group(1) == 'repository root' else m.group(1)
    fname = m.group(2).rstrip(';')
    m2 = re.search(r"-run '?([^' ]+)'? (\S+)", first)
    runpat, pkg = m2.group(1), m2.group(2)
    race = '-race ' if '-race' in first else ''
    rc, out = run(f'git apply {src}/patch.diff', wt)
    result['applies'] = rc == 0
    if rc != 0:
        result['error'] = out[-500:]
        raise SystemExit
    rc, out = run('go build ./... && go test -vet=off -count=1 ./...', wt)
    result['suite_passes_with_change'] = rc == 0
    shutil.copy(os.path.join(src, demo), os.path.join(wt, d, fname))
    rc, out = run(f"go test {race}-vet=off -count=1 -run '{runpat}' {pkg}", wt)
    result['demo_fails_with_change'] = rc != 0
    result['demo_output_with_change'] = out[-600:]
    run('git checkout -- . ', wt)
    rc, out = run(f"go test {race}-vet=off -count=1 -run '{runpat}' {pkg}", wt)
    result['demo_passes_without_change'] = rc == 0
    result['demo_cmd'] = f"cp demo_test.go <repo>/{os.path.join(d, fname)} && cd <repo> && go test {race}-vet=off -count=1 -run '{runpat}' {pkg}"
finally:
    run(f'git -C /repo worktree remove --force {wt}', '/')
    shutil.rmtree(wt, ignore_errors=True)
ok = all(result.get(k) for k in ('applies', 'suite_passes_with_change', 'demo_fails_with_change', 'demo_passes_without_change'))
result['confirmed'] = ok
print(json.dumps(result, indent=1))
if ok:
    dst = f'/verif/seeded/{name}'
    os.makedirs(dst, exist_ok=True)
    shutil.copy(f'{src}/patch.diff', dst)
    shutil.copy(os.path.join(src, demo), dst)
    meta = json.load(open(f'{src}/meta.json'))
    meta.update({'breaks_property': meta.get('property'), 'confirmed_by': 'checks/confirm_seed.py in a scratch worktree of /repo HEAD', 'confirmation': {k: result[k] for k in result if k != 'demo_output_with_change'}, 'demo_failure_excerpt': result['demo_output_with_change'][-300:]})
    json.dump(meta, open(f'{dst}/meta.json', 'w'), indent=1)
sys.exit(0 if ok else 1)
