#!/bin/bash
# selftest.sh [filter]: must-fail corpus, then must-pass corpus (harmless refactorings). Each mutant (selftest/mutants/*.patch with its property in INDEX.txt, and
# seeded/<name>/patch.diff with meta.json) is applied to a scratch worktree of /repo HEAD under $TMPDIR, the
# property's check is run against that copy and must exit 1; the unchanged copy must exit 0. Nothing is kept.
export GOFLAGS=-mod=mod GOPROXY=off GOSUMDB=off GOTOOLCHAIN=local
filter=${1:-.}
tmp=$(mktemp -d "${TMPDIR:-/tmp}/verif-selftest-XXXXXX")
wt=$tmp/repo; out=$tmp/out; mkdir -p $out
git -C /repo worktree add -q --detach $wt HEAD || exit 2
trap 'git -C /repo worktree remove --force $wt >/dev/null 2>&1; rm -rf $tmp' EXIT
fail=0; n=0
run() { # name prop patch
  name=$1; prop=$2; patch=$3
  echo "$name" | grep -Eq "$filter" || return
  [ -n "$(grep -l "\"$prop\"" /verif/MANIFEST.json)" ] || true
  if ! git -C $wt apply --check $patch 2>/dev/null; then echo "SKIP  $name ($prop): patch does not apply to HEAD"; return; fi
  git -C $wt apply $patch
  VERIF_REPO_DIR=$wt VERIF_OUT_DIR=$out /verif/bin/govc check $prop --tier quick > $tmp/log 2>&1; rc=$?
  git -C $wt checkout -q -- . ; git -C $wt clean -fdq
  n=$((n+1))
  if [ $rc -eq 1 ]; then echo "CAUGHT $name ($prop): $(grep -c '^VIOLATION' $tmp/log) violation(s): $(grep '^VIOLATION' $tmp/log | head -1 | sed 's/.*obligation=//' | cut -c1-100)"; else echo "MISSED $name ($prop): exit $rc"; fail=1; fi
}
while read name prop; do [ -n "$name" ] && run "$name" "$prop" /verif/selftest/mutants/$name.patch; done < /verif/selftest/mutants/INDEX.txt
for d in /verif/seeded/*/; do name=$(basename $d); prop=$(python3 -c "import json;print(json.load(open('$d/meta.json'))['property'])"); run "seeded-$name" "$prop" $d/patch.diff; done
# must-pass corpus: behaviour-preserving refactorings (selftest/harmless); every listed check must stay quiet
runok() { # name patch checks...
  name=$1; patch=$2; shift 2
  echo "$name" | grep -Eq "$filter" || return
  if ! git -C $wt apply --check $patch 2>/dev/null; then echo "SKIP  $name: patch does not apply to HEAD"; return; fi
  git -C $wt apply $patch
  for prop in "$@"; do
    VERIF_REPO_DIR=$wt VERIF_OUT_DIR=$out /verif/bin/govc check $prop --tier quick > $tmp/log 2>&1; rc=$?
    n=$((n+1))
    if [ $rc -eq 0 ]; then echo "QUIET  $name ($prop)"; else echo "FALSE-ALARM $name ($prop): exit $rc: $(grep '^VIOLATION' $tmp/log | head -1 | sed 's/.*obligation=//' | cut -c1-100)"; fail=1; fi
  done
  git -C $wt checkout -q -- . ; git -C $wt clean -fdq
}
while read name rest; do [ -n "$name" ] && runok "$name" /verif/selftest/harmless/$name.patch ${rest%%#*}; done < /verif/selftest/harmless/INDEX.txt
echo "selftest: $n runs, failures=$fail"
exit $fail
