#!/usr/bin/env python3
"""mutate.py [--per-file N] [--seed S] [--only substr]: small mutation campaign against the checks.

For a fixed map file -> checks, applies one syntactic mutation at a time to /repo's working tree (which must be
clean), skips mutants that do not compile, runs the mapped quick checks with evidence redirected to a scratch
directory, reverts, and records which mutants no check objected to ("survivors": either equivalent mutants or gaps
to look at). Nothing is committed; output goes to /verif/selftest/mutation_report.md.
"""
import os, re, sys, random, subprocess, json, argparse

ap = argparse.ArgumentParser()
ap.add_argument('--per-file', type=int, default=5)
ap.add_argument('--seed', type=int, default=1)
ap.add_argument('--only', default='')
ap.add_argument('--no-byteorder', action='store_true')
args = ap.parse_args()
random.seed(args.seed)
NOBO = args.no_byteorder

ENV = dict(os.environ, GOFLAGS='-mod=mod', GOPROXY='off', GOSUMDB='off', GOTOOLCHAIN='local', VERIF_OUT_DIR='/tmp/mut-out')
MAP = {
    'nasConvert/MobileIdentity5GS.go': ['C12', 'C14'], 'nasConvert/PlmnId.go': ['C12'], 'nasConvert/AmfId.go': ['C12', 'C14'],
    'nasConvert/Snssai.go': ['C13', 'C14'], 'nasConvert/Nssai.go': ['C13', 'C14'], 'nasConvert/TaiList.go': ['C13'],
    'nasConvert/ServiceAreaList.go': ['C13'], 'nasConvert/Ladn.go': ['C13', 'C14'],
    'nasConvert/ProtocolConfigurationOptions.go': ['C16'], 'nasConvert/PSI.go': ['C16', 'C14'],
    'nasConvert/PDUSessionReactivationResultErrorCause.go': ['C16'],
    'nasConvert/GPRSTimer2.go': ['C17'], 'nasConvert/GPRSTimer3.go': ['C17'], 'nasConvert/SessionAMBR.go': ['C17'],
    'nasConvert/Time.go': ['C17'], 'nasConvert/NetWorkName.go': ['C17'],
    'nasConvert/UESecurityCapability.go': ['C14'], 'nasConvert/UPUInfo.go': ['C14'],
    'security/security.go': ['C06', 'C07', 'C08'], 'security/counter.go': ['C11'],
    'security/snow3g/snow3g.go': ['C06', 'C07'], 'security/zuc/zuc.go': ['C06', 'C07'],
    'uePolicyContainer/UPSC_Generator.go': ['C20'],
    'uePolicyContainer/UePolicyContainer.go': ['C18'], 'uePolicyContainer/UePolicyContainer_Instruction.go': ['C18'],
    'uePolicyContainer/UePolicyContainer_UEPolicyParts.go': ['C18'], 'uePolicyContainer/UePolicyContainer_Result.go': ['C18'],
    'uePolicyContainer/UePolicyContainer_UEPolicySectionManagementSubList.go': ['C18'],
    'uePolicyContainer/UePolicyContainer_UEPolicySectionManagementSubResult.go': ['C18'],
    'uePolicyContainer/UePolicyContainer_ManageUEPolicyCommand.go': ['C18'],
    'uePolicyContainer/UePolicyContainer_ManageUEPolicyReject.go': ['C18'],
    'nasType/qos_rule.go': ['C15'], 'nasType/qos_flow_desc.go': ['C15'],
    'nasType/NAS_MobileIdentity5GS.go': ['C12', 'C14'], 'nasType/NAS_GUTI5G.go': ['C09'], 'nasType/NAS_TMSI5GS.go': ['C09'],
    'nas.go': ['C05', 'C01'],
    'nasMessage/NAS_RegistrationAccept.go': ['C04', 'C01'], 'nasMessage/NAS_ULNASTransport.go': ['C04', 'C01'],
    'nasMessage/NAS_PDUSessionEstablishmentAccept.go': ['C04', 'C01'],
}

OPS = [
    (r'<=', '<'), (r'>=', '>'), (r'(?<![<>=!-])<(?![<=-])', '<='), (r'(?<![<>=!-])>(?![>=])', '>='),
    (r'==', '!='), (r'!=', '=='), (r'<<', '>>'), (r'>>', '<<'),
    (r'(?<![&|])&(?![&^=])', '|'), (r'(?<![|])\|(?![|=])', '&'),
    (r'\+ 1\b', '- 1'), (r'- 1\b', '+ 1'), (r'\+ 2\b', '+ 1'), (r'\b0x0f\b', '0x1f'), (r'\b0xf0\b', '0xe0'),
    (r'binary\.BigEndian', 'binary.LittleEndian'), (r'\b7\b', '6'), (r'\b4\b', '3'), (r'\b8\b', '7'),
    (r'&&', '||'), (r'\|\|', '&&'),
]
SKIP_LINE = re.compile(r'^\s*(//|import|package|logger\.|log\.|func |type |\}|case |default:|const |var \w+ =? ?\[?\]?u?int)|Errorf|errors\.New|Warnf|Traceln|Infoln|`')


def sh(cmd, cwd='/repo', timeout=1800):
    p = subprocess.run(cmd, shell=True, cwd=cwd, env=ENV, capture_output=True, text=True, timeout=timeout)
    return p.returncode, p.stdout + p.stderr


rc, out = sh('git status --porcelain')
if out.strip():
    print('repo dirty, refusing')
    sys.exit(2)

rows = []
for f, checks in MAP.items():
    if args.only and not any(o in f for o in args.only.split(',')):
        continue
    path = '/repo/' + f
    if not os.path.exists(path):
        continue
    src = open(path).read().split('\n')
    cands = []
    for ln, line in enumerate(src):
        if SKIP_LINE.search(line) or '"' in line and ('fmt.' in line or 'Sprintf' in line):
            continue
        for pat, rep in OPS:
            if NOBO and 'Endian' in rep:
                continue
            for m in re.finditer(pat, line):
                # not inside a string literal or comment
                pre = line[:m.start()]
                if pre.count('"') % 2 == 1 or '//' in pre:
                    continue
                cands.append((ln, m.start(), m.end(), rep, pat))
    random.shuffle(cands)
    done = 0
    for ln, a, b, rep, pat in cands:
        if done >= args.per_file:
            break
        mut = list(src)
        mut[ln] = src[ln][:a] + rep + src[ln][b:]
        open(path, 'w').write('\n'.join(mut))
        try:
            rc, out = sh('go build ./... 2>&1 | head -3')
            rc2, _ = sh('go vet -tags verif ./%s 2>&1 | grep -q "^#" ' % os.path.dirname(f) if False else 'true')
            rcb, outb = sh('go build ./...')
            if rcb != 0:
                continue
            done += 1
            verdict = []
            for c in checks:
                rcc, outc = sh('/verif/checks/check.sh %s quick' % c, cwd='/verif', timeout=3000)
                nv = len([l for l in outc.split('\n') if l.startswith('VIOLATION')])
                first = ''
                for l in outc.split('\n'):
                    if l.startswith('VIOLATION'):
                        first = l.split('obligation=')[-1][:90]
                        break
                verdict.append((c, rcc, nv, first))
                if rcc == 1:
                    break
            killed = any(v[1] == 1 for v in verdict)
            # do the existing tests notice?
            rct, _ = sh('go test -vet=off -count=1 ./%s/' % (os.path.dirname(f) or '.'))
            row = {'file': f, 'line': ln + 1, 'orig': src[ln].strip()[:100], 'mut': mut[ln].strip()[:100], 'killed': killed,
                   'by': next((v[0] for v in verdict if v[1] == 1), ''), 'first': next((v[3] for v in verdict if v[1] == 1), ''),
                   'tests_fail': rct != 0, 'errors': [v for v in verdict if v[1] not in (0, 1)]}
            rows.append(row)
            json.dump(rows, open('/verif/selftest/mutation_rows.json', 'w'), indent=1)
            print(('KILLED  ' if killed else 'SURVIVED'), f, ln + 1, '|', row['mut'], '|', row['by'], row['first'], '| tests', 'fail' if row['tests_fail'] else 'pass', flush=True)
        finally:
            sh('git checkout -- .')

json.dump(rows, open('/verif/selftest/mutation_rows.json', 'w'), indent=1)
k = sum(1 for r in rows if r['killed'])
with open('/verif/selftest/mutation_report_last.md', 'w') as o:
    o.write('# Mutation campaign (seed %d, %d per file)\n\n%d mutants compiled, %d objected to by a check, %d survived; the existing test suite fails on %d of them.\n\n' % (
        args.seed, args.per_file, len(rows), k, len(rows) - k, sum(1 for r in rows if r['tests_fail'])))
    o.write('| file:line | mutation | verdict | check / first obligation | existing tests |\n|---|---|---|---|---|\n')
    for r in rows:
        o.write('| %s:%d | `%s` | %s | %s %s | %s |\n' % (r['file'], r['line'], r['mut'].replace('|', '\\|'), 'caught' if r['killed'] else '**survived**', r['by'], r['first'].replace('|', '\\|'), 'fail' if r['tests_fail'] else 'pass'))
subprocess.run('rm -rf /tmp/mut-out', shell=True)
print('done: %d mutants, %d killed' % (len(rows), k))
