#!/usr/bin/env python3
"""Regenerates /verif/MANIFEST.json from the table below (kept in one place so it stays valid)."""
import json, subprocess
props = [json.loads(l) for l in open('/verif/properties.jsonl')]
hooks = subprocess.run("git -C /repo log --format=%H --grep='^verif hook' ", shell=True, capture_output=True, text=True).stdout.split()
CLAIMED = {
 'C09': dict(design='8/C09', technique='deductive verification: symbolic execution of go/ssa to weakest-precondition VCs, contracts derived from the layout annotations, discharged by z3/cvc5',
   text='Proof, for all field values and all prior element contents, that each of ~1470 annotated Get*/Set* accessors of nasType meets the strongest contract derived from its layout annotation (getter: exactly those bits, no write; setter: exactly those bits written, every other bit, Iei, Len, slice header and octet unchanged).',
   note='Oracle is the Row/sBit/len annotation on each accessor (cross-checked with the type-level copy). Slice-backed elements verified under len(Buffer) > last row. go/ssa lowering, Go semantics as bit-vectors, SMT solvers trusted.'),
 'C11': dict(design='8/C11', technique='deductive verification: written pre/postconditions with representation invariant on security.Count, VCs from go/ssa, discharged by z3/cvc5',
   text='Proof that every method of security.Count preserves count < 2^24 and realises the abstract overflow||sqn view (increment mod 2^24 with carry, setters independent, reads do not change the value) from every one of the 2^24 states; histories by induction on the invariant.',
   note='Induction over histories is a paper step over the per-method obligations (unexported field, no other writer). go/ssa lowering and SMT solvers trusted.'),
}
CLAIMED['C14'] = dict(design='8/C14', technique='deductive verification: safety-only contracts (requires true), every panic site an obligation over symbolic inputs of symbolic length, loop invariants and variants as contracts; z3/cvc5',
   text='Proof that none of the 45 listed conversion helpers can panic (index, slice bounds, nil dereference, division, make, library preconditions) or loop forever for any byte string or text input: thin contracts with requires true (plus Len == len(Buffer) where a decoded element struct is taken), loop invariants and variants discharged for all lengths.',
   note='Trusted models of hex, strconv, strings, fmt.Sprintf, bytes.Buffer/Reader, binary.Read, time, logrus (DESIGN section 5). Slices of composite elements have unknown content (only their length is tracked). Non-nil receiver / pointer-to-struct parameters are assumed where the byte string is a field of a struct.')
TB_CODEC = 'Trusted models of bytes.Buffer and encoding/binary (DESIGN section 5); oracle spec/messages.json (extracted from the pinned tree, corrected and cross-checked against upstream\'s 88 spec-derived samples on every run); go/ssa lowering and SMT solvers trusted.'
CLAIMED['C01'] = dict(design='8/C01', technique='deductive verification: safety obligations at every panic site of the decoders under requires true on the bytes, loop variant, allocation ghost with linear invariant; z3/cvc5',
   text='Proof that the 45 generated decoders and the three decode entry points never panic, always terminate (variant buffer.Len()) and allocate at most 128*len(input) + 2*65535 + 640 octets, for every byte string of every length; entry points use the decoders through their contracts.',
   note='Allocation is counted by a ghost at make/new/append/binary.Read scratch (CPU work is not counted separately: each loop iteration consumes at least one octet and does work linear in the octets it consumes). ' + TB_CODEC)
CLAIMED['C04'] = dict(design='8/C04', technique='deductive verification: table-derived functional contracts; encoder proved by per-element cut points, decoder by a two-state loop-step relation against the table-driven step; z3/cvc5',
   text='Proof that each of the 45 encoders appends exactly ENC_T(a) and each of the 45 decoders equals the table-driven decoder DEC_T (mandatory part and one step of the optional-part loop from an arbitrary state: dispatch incl. half-octet rule, bounds accepted/rejected exactly, truncation is an error, last duplicate wins, unknown identifier skips one octet), for all inputs.',
   note=TB_CODEC)
CLAIMED['C02'] = dict(design='8/C02', technique='deductive verification: C04 codec contracts on the real code plus machine-checked per-row round-trip lemmas and table side conditions; induction over rows on paper; z3/cvc5',
   text='Encode-then-decode identity for all well-formed messages: real encoders == ENC_T, real decoders == DEC_T (obligations re-run), and for each of the 357 element slots DEC_T applied to the encoding of a well-formed element returns it and consumes exactly its octets; identifiers pairwise distinct per message.',
   note='Induction over the table rows is a paper step. ' + TB_CODEC)
CLAIMED['C03'] = dict(design='8/C03', technique='deductive verification: decoder postcondition establishes well-formedness, then the C02 lemma; equational steps on paper; z3/cvc5',
   text='A decoded message is well-formed (received identifier, length within bounds, storage of exactly that length), so re-encoding succeeds, decodes to the same message and is a fixed point; canonical input re-encodes byte-exactly. Rests on the per-function codec obligations and per-row lemmas, re-run on every check.',
   note='Equational reasoning from the obligations to the fixed-point statement is on paper; decoding starts from a fresh message struct. ' + TB_CODEC)
CLAIMED['C10'] = dict(design='8/C10', technique='deductive verification: frame and freshness (provenance) obligations on the real codecs; z3/cvc5 plus object-identity checks of the symbolic heap',
   text='Decoders never write the input and store only freshly allocated memory (no aliasing with the input or pre-existing storage); encoders modify only the buffer and only append, for every pre-existing buffer content; both are given as functions of their arguments (determinism).',
   note='bytes.Buffer growth is modelled as reallocation. ' + TB_CODEC)
CLAIMED['C05'] = dict(design='8/C05', technique='deductive verification: postconditions of the six dispatch functions over the dispatch table, generated codecs used through table-derived contracts (modular); z3/cvc5',
   text='Proof over all 256 discriminator and 256 message-type values at both header offsets: nil/empty/short input, unknown discriminator and unknown type are errors; success allocates a fresh family message, copies the header, populates exactly the body named by the type octet whose own header octets equal the header view; encoding dispatches symmetrically, appends exactly ENC_T(body), and unknown type, absent family or absent body are errors.',
   note='Codecs are used through contracts derived from spec/messages.json (their validity on the code is C04). ' + TB_CODEC)
CLAIMED['C20'] = dict(design='8/C20', technique='deductive verification: representation invariant and live-set view as contracts on every method, scan-loop invariant over a cyclic interval, variant, skolemised quantifiers over an SMT-array map model; z3/cvc5',
   text='Proof that every method of IDGenerator preserves the representation invariant, that every returned id is inside [minValue, maxValue], was not live and becomes live, that errors leave the live set unchanged, that plain Allocate fails only when all offsets are live, and that FreeID makes the id allocatable again; for all allocator ranges up to 2^62 and all states, histories by induction.',
   note='map[int64]bool as SMT array of presence bits; x % y with symbolic divisor replaced by a remainder lemma that is itself discharged (lemma.srem64); induction over histories on paper.')
CLAIMED['C19'] = dict(design='8/C19', technique='deductive frame/provenance obligations on every library function over go/ssa (no store to, or escape of, package-level memory outside init; no goroutine/channel/sync/atomic/unsafe use); race freedom by a stated non-interference argument',
   text='Proof of the property\'s premise: for each of ~2150 functions of the library packages three frame obligations (global-write, global-escape, sync) and one per package-level variable are discharged by a provenance analysis of the SSA of the current tree. The conclusion about all interleavings (no data race, sequential results) is reached only through the non-interference meta-argument listed under assumptions; interleavings are not explored.',
   note='Schedules are not enumerated. Trusted: logrus entries are internally synchronised; standard-library/dependency callees keep no cross-call state; the meta-argument from frame conditions to race freedom is on paper.')
TB_CRYPTO = 'Oracle /verif/spec (Go functions written from the standards, reproducing the published test vectors on every run; ZUC S-boxes/D are a snapshot of published constants). AES/CTR/CMAC are uninterpreted dependencies. LENGTH <= 8*len and inputs below 2^28 octets are preconditions of the per-algorithm functions. go/ssa lowering and SMT solvers trusted.'
CLAIMED['C06'] = dict(design='8/C06', technique='deductive verification: per-function contracts against executable specification functions (uninterpreted at call sites, definitional axioms in own clauses), quantified loop invariants, modular; z3/cvc5',
   text='Proof, for all keys, counts, bearers, directions, inputs and bit lengths, that snow3g and zuc compute the SNOW 3G / ZUC keystream of the specifications (every function against its specification function, keystream loops by invariant), that NEA1/NEA3 output IBS xor that keystream under the TS 33.401 parameter mapping for every LENGTH, NEA2 is AES-CTR under the specified counter block, and NASEncrypt applies them with LENGTH = 8*len in place.',
   note=TB_CRYPTO)
CLAIMED['C07'] = dict(design='8/C07', technique='deductive verification: per-function contracts against executable specification functions (UIA2 f9 with GF(2^64) MUL, EIA3 universal hash), recursive spec functions with one-step unfolding in loop invariants; z3/cvc5',
   text='Proof that NIA1 equals UIA2 f9 for every bit length (including 0 and lengths not multiple of 8/32/64), NIA2 equals the 32-bit truncation of AES-CMAC over the specified prefix and message, NIA3 computes the EIA3 universal hash over the ZUC keystream of the EIA3 IV, and NASMacCalculate dispatches with LENGTH = 8*len; SNOW 3G / ZUC cores as in C06.',
   note=TB_CRYPTO + ' 128-EIA3 is stated over NIA3\'s own keystream array (see evidence).')
CLAIMED['C08'] = dict(design='8/C08', technique='deductive verification: postconditions of NASEncrypt/NASMacCalculate from the statement, safety obligations for all lengths, frame obligations; laws as consequences of a keystream function without payload argument; z3/cvc5',
   text='Proof of the API laws for all 256 algorithm identities, bearers, directions and all payload lengths including 0: guards give errors and leave the payload untouched, otherwise payload[j] = old payload[j] xor KS(alg,key,count,bearer,direction,j) (involution, prefix stability, plaintext independence follow), algorithm 0 is the identity / all-zero MAC, MAC is exactly 4 fresh octets, key and message unmodified, no panic.',
   note=TB_CRYPTO)
CLAIMED['C17'] = dict(design='8/C17', technique='deductive verification: contracts against independent decoders of TS 24.008 / TS 23.038 for the integer encoders; symbolic-character harnesses over the complete input grammar for the string-driven encoders; network-name packing enumerated over its 65 lengths; z3/cvc5',
   text='Proof for all durations in range that GPRS timer 2/3 octets decode to at most the requested duration and exactly to it when representable; for all 65536 values x 5 units x both directions that the session AMBR octets carry the value and the Table 9.11.4.14.1 unit code; for every quarter-hour zone string with adjustment 0/1/2 (total within +-79 quarters) that the zone octet decodes to zone plus adjustment; for every name length 0..64 and all 7-bit characters that the packed text unpacks to the name with the right length octet and spare-bit count.',
   note='Bounded part: name length is enumerated 0..64 (the property\'s own range), characters symbolic. Universal time stamps: only field coding, time.Time/time.Date are trusted dependencies (instants 2000-2099 not proved). Exact models of strings.Split/strconv.ParseUint on explicit strings are trusted.')
REASONS = {}
checks = []
for p in props:
    pid = p['id']
    if pid in CLAIMED:
        c = CLAIMED[pid]
        checks.append({"property_id": pid, "quick_cmd": f"/verif/checks/check.sh {pid} quick", "thorough_cmd": f"/verif/checks/check.sh {pid} thorough",
            "evidence_file": f"/verif/evidence/{pid}.json", "engine": "govc", "replay_cmd_template": "cat {path}",
            "level_claimed": {"category": "proof", "text": c['text'], "design_ref": c['design']}, "level_note": c['note'], "technique": c['technique']})
na = [{"property_id": p['id'], "reason": REASONS.get(p['id'], "check not built yet (construction in progress; see DESIGN.md section 12 for the build order)")} for p in props if p['id'] not in CLAIMED]
m = {"version": 1,
 "setup_cmd": "cd /verif/engine && GOFLAGS=-mod=mod GOPROXY=off GOSUMDB=off GOTOOLCHAIN=local go build -o /verif/bin/govc ./cmd/govc",
 "hooks": {"guard": "verif", "enable": "go/packages BuildFlags -tags=verif; the hook files /repo/<pkg>/verif_contracts.go are comment-only and carry //go:build verif",
           "baseline_off_cmd": "cd /repo && GOFLAGS=-mod=mod GOPROXY=off GOSUMDB=off GOTOOLCHAIN=local go test -json -vet=off -count=1 -timeout 25m ./...",
           "source_commits": hooks, "add_only": True},
 "engines": [{"name": "govc", "path": "/verif/engine", "serves_properties": sorted(CLAIMED), "kind_free_text": "own deductive verifier for Go: symbolic execution of go/ssa built from /repo's working tree on every run, contracts as structured comments (//@) in guarded files and derived from source annotations, modular call handling, VCs discharged by a z3 4.8 / z3 5.1 / cvc5 portfolio, counterexamples replayed on the real code through go test -overlay"}],
 "checks": checks,
 "notes": "Every check reloads /repo from disk. known_findings.json lists genuine defects (fixed or open). seeded/ holds independently produced breaking changes used to test the checks.",
 "not_applicable": na}
json.dump(m, open('/verif/MANIFEST.json', 'w'), indent=1)
print(len(checks), 'checks;', len(na), 'not claimed')
