#!/bin/bash
# check.sh <Cxx> <quick|thorough>: run one property check against /repo's current working tree.
export GOFLAGS=-mod=mod GOPROXY=off GOSUMDB=off GOTOOLCHAIN=local
cd /verif || exit 2
if [ ! -x /verif/bin/govc ] || [ -n "$(find /verif/engine -name '*.go' -newer /verif/bin/govc 2>/dev/null | head -1)" ]; then
  (cd /verif/engine && go build -o /verif/bin/govc ./cmd/govc) || { echo "govc build failed"; exit 2; }
fi
id="$1"; tier="${2:-quick}"
# resource guard: on the unchanged tree every check finishes in about a minute (quick) / a few minutes (thorough) and
# stays far below the memory limit. A tree on which the verifier cannot finish is reported as undecided, not hung.
limit=1500; [ "$tier" = thorough ] && limit=5400; [ -n "$VERIF_LIMIT_S" ] && limit=$VERIF_LIMIT_S
out="${VERIF_OUT_DIR:-/verif}"
( ulimit -v 50331648; exec timeout -k 10 "$limit" /verif/bin/govc check "$id" --tier "$tier" )
rc=$?
if [ $rc -eq 124 ] || [ $rc -eq 137 ] || [ $rc -eq 134 ] || [ $rc -eq 2 -a -n "$VERIF_RESOURCE_AS_UNDECIDED" ]; then
  mkdir -p "$out/replays/$id"
  f="$out/replays/$id/resource-limit.json"
  printf '{"property":"%s","obligation":"%s#resource-limit","status":"undecided","reason":"the verifier did not finish within %s s / 48 GB on this tree (exit code %s); on the unchanged tree it does","tier":"%s"}\n' "$id" "$id" "$limit" "$rc" "$tier" > "$f"
  echo "VIOLATION property=$id replay=$f obligation=$id#resource-limit status=undecided no-failing-input-found"
  exit 1
fi
exit $rc
