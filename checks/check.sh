#!/bin/bash
# check.sh <Cxx> <quick|thorough>: run one property check against /repo's current working tree.
export GOFLAGS=-mod=mod GOPROXY=off GOSUMDB=off GOTOOLCHAIN=local
cd /verif || exit 2
if [ ! -x /verif/bin/govc ] || [ -n "$(find /verif/engine -name '*.go' -newer /verif/bin/govc 2>/dev/null | head -1)" ]; then
  (cd /verif/engine && go build -o /verif/bin/govc ./cmd/govc) || { echo "govc build failed"; exit 2; }
fi
exec /verif/bin/govc check "$1" --tier "${2:-quick}"
