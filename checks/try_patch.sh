#!/bin/bash
# usage: try_patch.sh <patch.diff> <Cxx> [tier]   -- apply a patch to /repo, run one check, always revert.
set -u
patch=$1; id=$2; tier=${3:-quick}
cd /repo || exit 2
if [ -n "$(git status --porcelain)" ]; then echo "repo dirty, refusing"; exit 2; fi
git apply "$patch" || { echo "patch does not apply"; exit 3; }
/verif/bin/govc check "$id" --tier "$tier"
rc=$?
git checkout -- . ; git clean -fdq
echo "exit=$rc"
exit $rc
