#!/bin/bash
# usage: try_patch.sh <abs patch.diff> <Cxx> [tier]   -- apply a patch to /repo, run one check, always revert.
# Evidence and replays of the run go to a scratch directory ($TRY_OUT, default /tmp/try-out), never to /verif/evidence:
# the evidence committed under /verif is always that of a run on the unchanged tree.
set -u
patch=$1; id=$2; tier=${3:-quick}
cd /repo || exit 2
if [ -n "$(git status --porcelain)" ]; then echo "repo dirty, refusing"; exit 2; fi
git apply "$patch" || { echo "patch does not apply"; exit 3; }
export VERIF_OUT_DIR="${TRY_OUT:-/tmp/try-out}"
mkdir -p "$VERIF_OUT_DIR/evidence" "$VERIF_OUT_DIR/replays"
/verif/checks/check.sh "$id" "$tier"
rc=$?
git checkout -- . ; git clean -fdq
echo "exit=$rc"
exit $rc
