#!/usr/bin/env python3
"""One-off extraction of the message tables (TS 24.501 8.2/8.3 as implemented by the pinned tree) into
/verif/spec/messages.json. The JSON is committed and is the oracle of C02-C05/C10; this script is NOT run by
the checks. tools/check_tables.py validates the JSON against upstream's spec-derived sample files."""
import re, glob, json, os
ntypes = {}
for f in glob.glob('/repo/nasType/NAS_*.go'):
    if f.endswith('_test.go'): continue
    src = open(f).read()
    for m in re.finditer(r'type (\w+) struct \{\n(.*?)\n\}', src, re.S):
        fields = dict(re.findall(r'^\s*(\w+)\s+(\S+)', m.group(2), re.M))
        ntypes[m.group(1)] = fields
    for m in re.finditer(r'type (\w+) struct\{\}', src):
        ntypes[m.group(1)] = {}
msgs = {}
for f in sorted(glob.glob('/repo/nasMessage/NAS_*.go')):
    if f.endswith('_test.go'): continue
    src = open(f).read()
    m = re.search(r'type (\w+) struct \{\n(.*?)\n\}', src, re.S)
    if not m:
        continue
    name = m.group(1)
    elems = []
    for line in m.group(2).split('\n'):
        line = line.strip()
        mm = re.match(r'(\*?)nasType\.(\w+)', line)
        if mm:
            elems.append({'field': mm.group(2), 'mandatory': mm.group(1) == ''})
    ieis = dict((k, int(v, 16)) for k, v in re.findall(name + r'(\w+)Type\s+uint8 = (0x[0-9A-Fa-f]+)', src))
    dec = src[src.index('func (a *%s) Decode' % name):]
    for e in elems:
        fld = e['field']
        t = ntypes[fld]
        lenT = t.get('Len')
        has_len_read = ('&a.%s.Len' % fld) in dec
        # guard
        g = re.search(r'if (a\.%s\.Len [^{]*)\{\n\s*return fmt\.Errorf\("invalid ie length' % fld, dec)
        allowed = None
        if g:
            cond = g.group(1).strip()
            mn = re.search(r'Len < (\d+)', cond); mx = re.search(r'Len > (\d+)', cond)
            ne = re.findall(r'Len != (\d+)', cond)
            if ne:
                allowed = {'set': [int(x) for x in ne]}
            else:
                allowed = {}
                if mn: allowed['min'] = int(mn.group(1))
                if mx: allowed['max'] = int(mx.group(1))
        if not e['mandatory']:
            e['iei'] = ieis[fld]
        if has_len_read:
            wide = lenT == 'uint16'
            if e['mandatory']:
                e['format'] = 'LV-E' if wide else 'LV'
            else:
                e['format'] = 'TLV-E' if wide else 'TLV'
            lim = 65535 if wide else 255
            if allowed is None: allowed = {}
            if 'set' not in allowed:
                allowed.setdefault('min', 0); allowed.setdefault('max', lim)
            e['len'] = allowed
        else:
            if e['mandatory']:
                e['format'] = 'V'
            elif e['iei'] < 16:
                e['format'] = 'TV1'
            else:
                e['format'] = 'TV'
            # fixed size from the Go type
            o = t.get('Octet')
            if o is None:
                e['octets'] = 0
            elif o == 'uint8':
                e['octets'] = 1
            else:
                e['octets'] = int(re.match(r'\[(\d+)\]uint8', o).group(1))
            if e['format'] == 'TV1': e['octets'] = 1
    msgs[name] = {'elements': elems}
# audit corrections against TS 24.501 (confirmed by upstream's spec-derived Max* samples): the pinned decoders omit
# these upper bounds because the generator compares the maximum with MaxInt8 instead of MaxUint8
AUDIT = {('RegistrationAccept', 'ConfiguredNSSAI'): 144, ('ConfigurationUpdateCommand', 'ConfiguredNSSAI'): 144,
         ('PDUSessionEstablishmentRequest', 'SMPDUDNRequestContainer'): 253}
for (mn, fld), mx in AUDIT.items():
    for e in msgs[mn]['elements']:
        if e['field'] == fld:
            e['len']['max'] = mx
# dispatch
gen = open('/repo/nas_generated.go').read()
types = dict((k, int(v)) for k, v in re.findall(r'MsgType(\w+)\s+uint8 = (\d+)', gen))
gmm = re.search(r'type GmmMessage struct \{(.*?)\n\}', gen, re.S).group(1)
gsm = re.search(r'type GsmMessage struct \{(.*?)\n\}', gen, re.S).group(1)
disp = {'GMM': {}, 'GSM': {}}
for fam, body in (('GMM', gmm), ('GSM', gsm)):
    for n in re.findall(r'\*nasMessage\.(\w+)', body):
        if n in types:
            disp[fam][n] = types[n]
out = {'comment': 'Message tables: per message the elements in table order with presence, IEI, format and allowed length of the value part. Extracted once from the pinned tree (tools/extract_tables.py), cross-checked against testdata (tools/check_tables.py). Representation (Octet/Buffer) is NOT recorded here; the checker reads it from the Go types.',
       'dispatch': disp, 'messages': msgs}
json.dump(out, open('/verif/spec/messages.json', 'w'), indent=1)
n = sum(len(m['elements']) for m in msgs.values())
print(len(msgs), 'messages', n, 'element slots', sum(1 for m in msgs.values() for e in m['elements'] if not e['mandatory']), 'optional')
