#!/usr/bin/env python3
"""Cross-check /verif/spec/messages.json against upstream's spec-derived samples /repo/testdata/G?mMessage/{Min,Max}<Msg>:
every sample must parse with the table, all elements present in table order, with the minimum (Min*) or maximum (Max*)
length the table allows. Exit 0 iff all samples agree. Used as a spec-sanity obligation."""
import json, os, sys
d = json.load(open('/verif/spec/messages.json'))
bad = 0; n = 0
def lens(e, which):
    a = e['len']
    if 'set' in a: return min(a['set']) if which == 'Min' else max(a['set'])
    return a['min'] if which == 'Min' else a['max']
for fam, sub in (('GMM', 'GmmMessage'), ('GSM', 'GsmMessage')):
    for name in sorted(os.listdir(f'/repo/testdata/{sub}')):
        which, msg = name[:3], name[3:]
        if msg not in d['messages']: print('no table for', msg); bad += 1; continue
        data = open(f'/repo/testdata/{sub}/{name}', 'rb').read(); off = 0; ok = True
        n += 1
        for e in d['messages'][msg]['elements']:
            f = e['format']
            try:
                if f == 'V':
                    off += e['octets']
                elif f in ('LV', 'LV-E'):
                    w = 1 if f == 'LV' else 2
                    L = int.from_bytes(data[off:off+w], 'big'); off += w
                    if L != lens(e, which): ok = False; print(name, e['field'], 'len', L, 'table', e['len'])
                    off += L
                elif f == 'TV1':
                    if data[off] >> 4 != e['iei']: ok = False; print(name, e['field'], 'iei', hex(data[off]))
                    off += 1
                elif f == 'TV':
                    if data[off] != e['iei']: ok = False; print(name, e['field'], 'iei', hex(data[off]))
                    off += 1 + e['octets']
                else:
                    w = 1 if f == 'TLV' else 2
                    if data[off] != e['iei']: ok = False; print(name, e['field'], 'iei', hex(data[off]), 'want', hex(e['iei']))
                    off += 1
                    L = int.from_bytes(data[off:off+w], 'big'); off += w
                    if L != lens(e, which): ok = False; print(name, e['field'], 'len', L, 'table', e['len'])
                    off += L
            except IndexError:
                ok = False; print(name, 'truncated at', e['field'])
        if off != len(data): ok = False; print(name, 'consumed', off, 'of', len(data))
        if not ok: bad += 1
print(f'{n} samples checked, {bad} disagree')
sys.exit(1 if bad else 0)
