package spec

// ---------------- 128-EEA1 / 128-EIA1 (TS 35.215 UEA2 / UIA2, parameter mapping of TS 33.401 Annex B) ----------------

// EEA1Key: K3 = CK[0..31], K2 = CK[32..63], K1 = CK[64..95], K0 = CK[96..127] (most significant octet first).
func EEA1Key(ck [16]uint8) [4]uint32 {
	var k [4]uint32
	for i := 0; i < 4; i++ {
		o := 4 * (3 - i)
		k[i] = uint32(ck[o])<<24 | uint32(ck[o+1])<<16 | uint32(ck[o+2])<<8 | uint32(ck[o+3])
	}
	return k
}

// EEA1IV: IV3 = COUNT, IV2 = BEARER || DIRECTION || 0^26, IV1 = IV3, IV0 = IV2.
func EEA1IV(count, bearer, direction uint32) [4]uint32 {
	iv2 := bearer<<27 | direction<<26
	return [4]uint32{iv2, count, iv2, count}
}

// EEA1KS: octet j of the keystream z1 || z2 || ... (most significant octet of each word first).
func EEA1KS(ck [16]uint8, count, bearer, direction uint32, j int) uint8 {
	w := SnowKeystreamWord(EEA1Key(ck), EEA1IV(count, bearer, direction), j/4)
	return uint8(w >> uint(8*(3-j%4)))
}

// CipherOut: output octet j for input octet in, keystream octet ks and LENGTH bits: OBS = IBS xor KS on the first
// LENGTH bits. keepTail tells what the implementation documents for the bits after LENGTH inside the last octet:
// true (EEA1): input bits pass through unchanged; false (EEA3): they are zero. Octets after the last one are zero.
func CipherOut(in, ks uint8, length uint32, j int, keepTail bool) uint8 {
	first := uint64(j) * 8
	if first+8 <= uint64(length) {
		return in ^ ks
	}
	if first < uint64(length) {
		n := uint(uint64(length) - first) // 1..7 bits
		m := uint8(0xff) << (8 - n)
		if keepTail {
			return in ^ (ks & m)
		}
		return (in ^ ks) & m
	}
	return 0
}

// ---------------- 128-EEA3 (EEA3/EIA3 specification v1.8) ----------------

// EEA3IV: IV[0..3] = COUNT, IV[4] = BEARER || DIRECTION || 00, IV[5..7] = 0, IV[8..15] = IV[0..7].
func EEA3IV(count uint32, bearer, direction uint8) [16]uint8 {
	var iv [16]uint8
	iv[0], iv[1], iv[2], iv[3] = uint8(count>>24), uint8(count>>16), uint8(count>>8), uint8(count)
	iv[4] = bearer<<3 | direction<<2
	for i := 0; i < 8; i++ {
		iv[i+8] = iv[i]
	}
	return iv
}

// EEA3KS: octet j of the ZUC keystream for the confidentiality key and IV above.
func EEA3KS(ck [16]uint8, count uint32, bearer, direction uint8, j int) uint8 {
	w := ZucKeystreamWord(ck, EEA3IV(count, bearer, direction), j/4)
	return uint8(w >> uint(8*(3-j%4)))
}

// ---------------- 128-EEA2 / 128-EIA2: AES is a dependency; the primitive is uninterpreted ----------------

// AESCTR: octet j of the AES-128-CTR keystream for the key and initial counter block. Uninterpreted (trusted
// dependency crypto/aes + crypto/cipher); never unfolded.
func AESCTR(key [16]uint8, ctr [16]uint8, j int) uint8 { panic("uninterpreted") }

// AESCMAC: octet j (0..15) of the AES-128-CMAC of the message octets m[off:off+n]. Uninterpreted (github.com/aead/cmac).
func AESCMAC(key [16]uint8, m []uint8, j int) uint8 { panic("uninterpreted") }

// EEA2CounterBlock: COUNT[0..31] || BEARER[0..4] || DIRECTION || 0^26 || 0^64.
func EEA2CounterBlock(count uint32, bearer, direction uint8) [16]uint8 {
	var b [16]uint8
	b[0], b[1], b[2], b[3] = uint8(count>>24), uint8(count>>16), uint8(count>>8), uint8(count)
	b[4] = bearer<<3 | direction<<2
	return b
}

// ---------------- 128-EIA1 (UIA2 f9, TS 35.215) ----------------

// MUL64x, MUL64xPOW, MUL64: multiplication in GF(2^64) as defined for UIA2 (c = 0x1b).
func MUL64x(V, c uint64) uint64 {
	if V&0x8000000000000000 != 0 {
		return (V << 1) ^ c
	}
	return V << 1
}

func MUL64xPOW(V uint64, i int, c uint64) uint64 {
	if i == 0 {
		return V
	}
	return MUL64x(MUL64xPOW(V, i-1, c), c)
}

func MUL64(V, P, c uint64) uint64 {
	var r uint64
	for i := 0; i < 64; i++ {
		if (P>>uint(i))&1 == 1 {
			r ^= MUL64xPOW(V, i, c)
		}
	}
	return r
}

// EIA1IV: IV3 = COUNT, IV2 = FRESH, IV1 = COUNT xor (DIRECTION << 31), IV0 = FRESH xor (DIRECTION << 15),
// with FRESH = BEARER || 0^27 (TS 33.401 B.2.2).
func EIA1IV(count uint32, bearer uint8, direction uint32) [4]uint32 {
	fresh := uint32(bearer) << 27
	return [4]uint32{fresh ^ (direction << 15), count ^ (direction << 31), fresh, count}
}

// MsgOctet: octet j of the message of LENGTH bits padded with zero bits.
func MsgOctet(msg []uint8, length uint64, j uint64) uint8 {
	if 8*j+8 <= length {
		return msg[j]
	}
	if 8*j < length {
		return msg[j] & (uint8(0xff) << (8 - uint(length-8*j)))
	}
	return 0
}

// EIA1Block: 64-bit block i of the zero-padded message.
func EIA1Block(msg []uint8, length uint64, i int) uint64 {
	var m uint64
	for b := 0; b < 8; b++ {
		m = m<<8 | uint64(MsgOctet(msg, length, uint64(8*i+b)))
	}
	return m
}

// EIA1Eval: EVAL after the first n message blocks: EVAL_0 = 0, EVAL_{n} = MUL(EVAL_{n-1} xor M_{n-1}, P, c).
func EIA1Eval(P uint64, msg []uint8, length uint64, n int) uint64 {
	if n == 0 {
		return 0
	}
	return MUL64(EIA1Eval(P, msg, length, n-1)^EIA1Block(msg, length, n-1), P, 0x1b)
}

// EIA1: MAC-I of the message of LENGTH bits: z1..z5 keystream words, P = z1||z2, Q = z3||z4, D = ceil(LENGTH/64)+1,
// the D-1 message blocks are multiplied by P, then LENGTH is added and the result multiplied by Q; MAC = EVAL[0..31] xor z5.
func EIA1(ik [16]uint8, count uint32, bearer uint8, direction uint32, msg []uint8, length uint64) uint32 {
	k := EEA1Key(ik)
	iv := EIA1IV(count, bearer, direction)
	P := uint64(SnowKeystreamWord(k, iv, 0))<<32 | uint64(SnowKeystreamWord(k, iv, 1))
	Q := uint64(SnowKeystreamWord(k, iv, 2))<<32 | uint64(SnowKeystreamWord(k, iv, 3))
	D := (length+63)/64 + 1
	eval := EIA1Eval(P, msg, length, int(D-1))
	eval ^= length
	eval = MUL64(eval, Q, 0x1b)
	return uint32(eval>>32) ^ SnowKeystreamWord(k, iv, 4)
}

// ---------------- 128-EIA3 (EEA3/EIA3 specification v1.8) ----------------

// EIA3IV: IV[0..3] = COUNT, IV[4] = BEARER || 000, IV[5..7] = 0, IV[8] = IV[0] xor (DIRECTION << 7), IV[9..13] = IV[1..5],
// IV[14] = IV[6] xor (DIRECTION << 7), IV[15] = IV[7].
func EIA3IV(count uint32, bearer, direction uint8) [16]uint8 {
	var iv [16]uint8
	iv[0], iv[1], iv[2], iv[3] = uint8(count>>24), uint8(count>>16), uint8(count>>8), uint8(count)
	iv[4] = bearer << 3
	iv[8] = iv[0] ^ (direction << 7)
	for i := 1; i <= 5; i++ {
		iv[8+i] = iv[i]
	}
	iv[14] = iv[6] ^ (direction << 7)
	iv[15] = iv[7]
	return iv
}

// BitWord: the 32-bit word z[i] || ... || z[i+31] of the bit stream formed by the words of z.
func BitWord(z []uint32, i int) uint32 {
	if i%32 == 0 {
		return z[i/32]
	}
	return z[i/32]<<uint(i%32) | z[i/32+1]>>uint(32-i%32)
}

// MsgBit: bit i of the message (most significant bit of each octet first).
func MsgBit(m []uint8, i int) bool { return m[i/8]&(1<<uint(7-i%8)) != 0 }

// EIA3Acc: T after the first n message bits: T xor= z[i..i+31] for every set bit i < n.
func EIA3Acc(m []uint8, z []uint32, n int) uint32 {
	if n == 0 {
		return 0
	}
	t := EIA3Acc(m, z, n-1)
	if MsgBit(m, n-1) {
		t ^= BitWord(z, n-1)
	}
	return t
}

// EIA3Mac: MAC = T xor z[LENGTH..LENGTH+31] xor z[32(L-1)..32(L-1)+31] where z has L = ceil(LENGTH/32)+2 words.
func EIA3Mac(m []uint8, z []uint32, length int) uint32 {
	return EIA3Acc(m, z, length) ^ BitWord(z, length) ^ BitWord(z, 32*(len(z)-1))
}

// EIA2Prefix: COUNT[0..31] || BEARER[0..4] || DIRECTION || 0^26, the 8 octets prepended to the message for AES-CMAC.
func EIA2Prefix(count uint32, bearer, direction uint8) [8]uint8 {
	var b [8]uint8
	b[0], b[1], b[2], b[3] = uint8(count>>24), uint8(count>>16), uint8(count>>8), uint8(count)
	b[4] = bearer<<3 | direction<<2
	return b
}

// EIA2: octet j of AES-128-CMAC(key, prefix || msg). Uninterpreted (github.com/aead/cmac over crypto/aes).
func EIA2(key [16]uint8, prefix [8]uint8, msg []uint8, j int) uint8 { panic("uninterpreted") }
