package spec

// ---------------- ZUC (specification v1.6) ----------------

// ZucAddM: addition modulo 2^31-1 on the representation {0..2^31-1} as in the reference arithmetic of the
// specification (c = a + b; (c & 0x7FFFFFFF) + (c >> 31)).
func ZucAddM(a, b uint32) uint32 {
	c := a + b
	return (c & 0x7FFFFFFF) + (c >> 31)
}

// ZucMulByPow2: x * 2^k modulo 2^31-1 as a 31-bit rotation.
func ZucMulByPow2(x uint32, k uint) uint32 {
	return ((x << k) | (x >> (31 - k))) & 0x7FFFFFFF
}

// ZucLfsrV: 2^15 s15 + 2^17 s13 + 2^21 s10 + 2^20 s4 + (1 + 2^8) s0 mod (2^31-1).
func ZucLfsrV(s [16]uint32) uint32 {
	f := s[0]
	f = ZucAddM(f, ZucMulByPow2(s[0], 8))
	f = ZucAddM(f, ZucMulByPow2(s[4], 20))
	f = ZucAddM(f, ZucMulByPow2(s[10], 21))
	f = ZucAddM(f, ZucMulByPow2(s[13], 17))
	f = ZucAddM(f, ZucMulByPow2(s[15], 15))
	return f
}

// ZucLfsrInit: LFSRWithInitialisationMode(u).
func ZucLfsrInit(s [16]uint32, u uint32) [16]uint32 {
	v := ZucAddM(ZucLfsrV(s), u)
	return [16]uint32{s[1], s[2], s[3], s[4], s[5], s[6], s[7], s[8], s[9], s[10], s[11], s[12], s[13], s[14], s[15], v}
}

// ZucLfsrWork: LFSRWithWorkMode().
func ZucLfsrWork(s [16]uint32) [16]uint32 {
	v := ZucLfsrV(s)
	return [16]uint32{s[1], s[2], s[3], s[4], s[5], s[6], s[7], s[8], s[9], s[10], s[11], s[12], s[13], s[14], s[15], v}
}

// ZucBR: bit reorganisation, X0 = s15H||s14L, X1 = s11L||s9H, X2 = s7L||s5H, X3 = s2L||s0H.
func ZucBR(s [16]uint32) [4]uint32 {
	return [4]uint32{
		((s[15] & 0x7FFF8000) << 1) | (s[14] & 0xFFFF),
		((s[11] & 0xFFFF) << 16) | (s[9] >> 15),
		((s[7] & 0xFFFF) << 16) | (s[5] >> 15),
		((s[2] & 0xFFFF) << 16) | (s[0] >> 15),
	}
}

func zucRot(a uint32, k uint) uint32 { return (a << k) | (a >> (32 - k)) }

// ZucL1, ZucL2: the linear transforms.
func ZucL1(x uint32) uint32 {
	return x ^ zucRot(x, 2) ^ zucRot(x, 10) ^ zucRot(x, 18) ^ zucRot(x, 24)
}
func ZucL2(x uint32) uint32 {
	return x ^ zucRot(x, 8) ^ zucRot(x, 14) ^ zucRot(x, 22) ^ zucRot(x, 30)
}

// ZucS: the 32x32 S-box S = (S0, S1, S0, S1).
func ZucS(x uint32) uint32 {
	return uint32(ZucS0[uint8(x>>24)])<<24 | uint32(ZucS1[uint8(x>>16)])<<16 | uint32(ZucS0[uint8(x>>8)])<<8 | uint32(ZucS1[uint8(x)])
}

// ZucFW: output W of the nonlinear function F.
func ZucFW(R [2]uint32, X [4]uint32) uint32 { return (X[0] ^ R[0]) + R[1] }

// ZucFNext: new memory cells of F.
func ZucFNext(R [2]uint32, X [4]uint32) [2]uint32 {
	w1 := R[0] + X[1]
	w2 := R[1] ^ X[2]
	return [2]uint32{ZucS(ZucL1((w1 << 16) | (w2 >> 16))), ZucS(ZucL2((w2 << 16) | (w1 >> 16)))}
}

// ZucState: LFSR cells and the two memory cells of F.
type ZucState struct {
	S [16]uint32
	R [2]uint32
}

// ZucLoad: s_i = k_i || d_i || iv_i (8, 15, 8 bits), R1 = R2 = 0.
func ZucLoad(k, iv [16]uint8) ZucState {
	var st ZucState
	for i := 0; i < 16; i++ {
		st.S[i] = uint32(k[i])<<23 | ZucD[i]<<8 | uint32(iv[i])
	}
	return st
}

// ZucInitStep: one initialisation round.
func ZucInitStep(st ZucState) ZucState {
	X := ZucBR(st.S)
	w := ZucFW(st.R, X)
	return ZucState{S: ZucLfsrInit(st.S, w>>1), R: ZucFNext(st.R, X)}
}

func ZucInitIter(k, iv [16]uint8, i int) ZucState {
	if i == 0 {
		return ZucLoad(k, iv)
	}
	return ZucInitStep(ZucInitIter(k, iv, i-1))
}

// ZucInit: state after the 32 initialisation rounds.
func ZucInit(k, iv [16]uint8) ZucState { return ZucInitIter(k, iv, 32) }

// ZucWorkStep: BR, F (output not used here), LFSR in work mode.
func ZucWorkStep(st ZucState) ZucState {
	X := ZucBR(st.S)
	return ZucState{S: ZucLfsrWork(st.S), R: ZucFNext(st.R, X)}
}

func ZucWorkIter(st ZucState, i int) ZucState {
	if i == 0 {
		return st
	}
	return ZucWorkStep(ZucWorkIter(st, i-1))
}

// ZucZ: keystream word t (0-based) from state s0 = state after the first (discarded) work step.
func ZucZ(s0 ZucState, t int) uint32 {
	st := ZucWorkIter(s0, t)
	X := ZucBR(st.S)
	return ZucFW(st.R, X) ^ X[3]
}

// ZucWord: keystream word t for key k and iv.
func ZucWord(k, iv [16]uint8, t int) uint32 {
	return ZucZ(ZucWorkStep(ZucInit(k, iv)), t)
}

// ---- forms used by the contracts of the implementation, which keeps LFSR and F memory in separate objects ----

// ZucInitS / ZucInitR: LFSR cells and F memory after initialisation.
func ZucInitS(k, iv [16]uint8) [16]uint32 { return ZucInit(k, iv).S }
func ZucInitR(k, iv [16]uint8) [2]uint32  { return ZucInit(k, iv).R }

// ZucRunIter: the state after the discarded first work step and i further work steps.
func ZucRunIter(s [16]uint32, r [2]uint32, i int) ZucState {
	if i == 0 {
		return ZucWorkStep(ZucState{S: s, R: r})
	}
	return ZucWorkStep(ZucRunIter(s, r, i-1))
}

func ZucRunS(s [16]uint32, r [2]uint32, i int) [16]uint32 { return ZucRunIter(s, r, i).S }
func ZucRunR(s [16]uint32, r [2]uint32, i int) [2]uint32  { return ZucRunIter(s, r, i).R }

// ZucRunZ: keystream word t (0-based) produced from the initialised state (s, r).
func ZucRunZ(s [16]uint32, r [2]uint32, t int) uint32 {
	st := ZucRunIter(s, r, t)
	X := ZucBR(st.S)
	return ZucFW(st.R, X) ^ X[3]
}

// ZucKeystreamWord: word t of the keystream for key k and iv (same as ZucWord).
func ZucKeystreamWord(k, iv [16]uint8, t int) uint32 {
	return ZucRunZ(ZucInitS(k, iv), ZucInitR(k, iv), t)
}
