// Package spec: pure mathematical definitions the contracts refer to, written from the standards
// (ETSI/SAGE UEA2&UIA2 Document 2 "SNOW 3G", ZUC specification v1.6, TS 33.401 Annex B, TS 33.501 Annex D),
// never derived from the code under verification.
package spec

// ---------------- SNOW 3G ----------------

// MULx maps 16 bits to 8 bits: V<<1 xor c if the leftmost bit of V is 1, else V<<1.
func MULx(V, c uint8) uint8 {
	if V&0x80 != 0 {
		return (V << 1) ^ c
	}
	return V << 1
}

// MULxPOW(V, i, c): i-fold application of MULx.
func MULxPOW(V uint8, i int, c uint8) uint8 {
	if i == 0 {
		return V
	}
	return MULx(MULxPOW(V, i-1, c), c)
}

// S1: the 32x32-bit S-box based on the Rijndael S-box SR.
func S1(w uint32) uint32 {
	w0, w1, w2, w3 := uint8(w>>24), uint8(w>>16), uint8(w>>8), uint8(w)
	r0 := MULx(SR[w0], 0x1B) ^ SR[w1] ^ SR[w2] ^ MULx(SR[w3], 0x1B) ^ SR[w3]
	r1 := MULx(SR[w0], 0x1B) ^ SR[w0] ^ MULx(SR[w1], 0x1B) ^ SR[w2] ^ SR[w3]
	r2 := SR[w0] ^ MULx(SR[w1], 0x1B) ^ SR[w1] ^ MULx(SR[w2], 0x1B) ^ SR[w3]
	r3 := SR[w0] ^ SR[w1] ^ MULx(SR[w2], 0x1B) ^ SR[w2] ^ MULx(SR[w3], 0x1B)
	return uint32(r0)<<24 | uint32(r1)<<16 | uint32(r2)<<8 | uint32(r3)
}

// S2: the 32x32-bit S-box based on SQ.
func S2(w uint32) uint32 {
	w0, w1, w2, w3 := uint8(w>>24), uint8(w>>16), uint8(w>>8), uint8(w)
	r0 := MULx(SQ[w0], 0x69) ^ SQ[w1] ^ SQ[w2] ^ MULx(SQ[w3], 0x69) ^ SQ[w3]
	r1 := MULx(SQ[w0], 0x69) ^ SQ[w0] ^ MULx(SQ[w1], 0x69) ^ SQ[w2] ^ SQ[w3]
	r2 := SQ[w0] ^ MULx(SQ[w1], 0x69) ^ SQ[w1] ^ MULx(SQ[w2], 0x69) ^ SQ[w3]
	r3 := SQ[w0] ^ SQ[w1] ^ MULx(SQ[w2], 0x69) ^ SQ[w2] ^ MULx(SQ[w3], 0x69)
	return uint32(r0)<<24 | uint32(r1)<<16 | uint32(r2)<<8 | uint32(r3)
}

// MULalpha maps 8 bits to 32 bits.
func MULalpha(c uint8) uint32 {
	return uint32(MULxPOW(c, 23, 0xA9))<<24 | uint32(MULxPOW(c, 245, 0xA9))<<16 | uint32(MULxPOW(c, 48, 0xA9))<<8 | uint32(MULxPOW(c, 239, 0xA9))
}

// DIValpha maps 8 bits to 32 bits.
func DIValpha(c uint8) uint32 {
	return uint32(MULxPOW(c, 16, 0xA9))<<24 | uint32(MULxPOW(c, 39, 0xA9))<<16 | uint32(MULxPOW(c, 6, 0xA9))<<8 | uint32(MULxPOW(c, 64, 0xA9))
}

// Snow is the state: LFSR stages s0..s15 and FSM registers R1, R2, R3.
type Snow struct {
	LFSR [16]uint32
	FSM  [3]uint32
}

// FsmF: output word of the FSM, F = (s15 + R1) xor R2.
func FsmF(R [3]uint32, s15 uint32) uint32 { return (s15 + R[0]) ^ R[1] }

// FsmNext: r = R2 + (R3 xor s5); R3 = S2(R2); R2 = S1(R1); R1 = r.
func FsmNext(R [3]uint32, s5 uint32) [3]uint32 {
	r := R[1] + (R[2] ^ s5)
	return [3]uint32{r, S1(R[0]), S2(R[1])}
}

// lfsrV: feedback word without the FSM output.
func lfsrV(s [16]uint32) uint32 {
	return (s[0] << 8) ^ MULalpha(uint8(s[0]>>24)) ^ s[2] ^ (s[11] >> 8) ^ DIValpha(uint8(s[11]))
}

// LfsrInit: initialisation mode, the FSM output F is fed back.
func LfsrInit(s [16]uint32, F uint32) [16]uint32 {
	v := lfsrV(s) ^ F
	return [16]uint32{s[1], s[2], s[3], s[4], s[5], s[6], s[7], s[8], s[9], s[10], s[11], s[12], s[13], s[14], s[15], v}
}

// LfsrKey: keystream mode.
func LfsrKey(s [16]uint32) [16]uint32 {
	v := lfsrV(s)
	return [16]uint32{s[1], s[2], s[3], s[4], s[5], s[6], s[7], s[8], s[9], s[10], s[11], s[12], s[13], s[14], s[15], v}
}

// SnowLoad: key and IV loading (1 = 0xffffffff). k[0..3] = K0..K3, iv[0..3] = IV0..IV3.
func SnowLoad(k, iv [4]uint32) Snow {
	const one = 0xffffffff
	var s Snow
	s.LFSR[15] = k[3] ^ iv[0]
	s.LFSR[14] = k[2]
	s.LFSR[13] = k[1]
	s.LFSR[12] = k[0] ^ iv[1]
	s.LFSR[11] = k[3] ^ one
	s.LFSR[10] = k[2] ^ one ^ iv[2]
	s.LFSR[9] = k[1] ^ one ^ iv[3]
	s.LFSR[8] = k[0] ^ one
	s.LFSR[7] = k[3]
	s.LFSR[6] = k[2]
	s.LFSR[5] = k[1]
	s.LFSR[4] = k[0]
	s.LFSR[3] = k[3] ^ one
	s.LFSR[2] = k[2] ^ one
	s.LFSR[1] = k[1] ^ one
	s.LFSR[0] = k[0] ^ one
	return s
}

// SnowInitStep: one of the 32 initialisation clocks.
func SnowInitStep(s Snow) Snow {
	F := FsmF(s.FSM, s.LFSR[15])
	fsm := FsmNext(s.FSM, s.LFSR[5])
	return Snow{LFSR: LfsrInit(s.LFSR, F), FSM: fsm}
}

// SnowInitIter: i initialisation clocks after loading.
func SnowInitIter(k, iv [4]uint32, i int) Snow {
	if i == 0 {
		return SnowLoad(k, iv)
	}
	return SnowInitStep(SnowInitIter(k, iv, i-1))
}

// SnowInit: the state after initialisation (32 clocks).
func SnowInit(k, iv [4]uint32) Snow { return SnowInitIter(k, iv, 32) }

// SnowKeyStep: one keystream-mode clock.
func SnowKeyStep(s Snow) Snow {
	fsm := FsmNext(s.FSM, s.LFSR[5])
	return Snow{LFSR: LfsrKey(s.LFSR), FSM: fsm}
}

// SnowKeyIter: i keystream-mode clocks.
func SnowKeyIter(s Snow, i int) Snow {
	if i == 0 {
		return s
	}
	return SnowKeyStep(SnowKeyIter(s, i-1))
}

// SnowZ: keystream word z_{t+1} produced from state s0 = state after the discarded first clock.
func SnowZ(s0 Snow, t int) uint32 {
	s := SnowKeyIter(s0, t)
	return FsmF(s.FSM, s.LFSR[15]) ^ s.LFSR[0]
}

// SnowWord: word t (0-based) of the keystream for key words k and IV words iv: after initialisation the FSM is clocked
// once and its output discarded, then the LFSR is clocked in keystream mode.
func SnowWord(k, iv [4]uint32, t int) uint32 {
	return SnowZ(SnowKeyStep(SnowInit(k, iv)), t)
}

// SnowWorkIter: the state after the discarded first keystream-mode clock and i further clocks.
func SnowWorkIter(s0 Snow, i int) Snow {
	if i == 0 {
		return SnowKeyStep(s0)
	}
	return SnowKeyStep(SnowWorkIter(s0, i-1))
}

// SnowWorkZ: keystream word t (0-based) produced from the initialised state s0.
func SnowWorkZ(s0 Snow, t int) uint32 {
	s := SnowWorkIter(s0, t)
	return FsmF(s.FSM, s.LFSR[15]) ^ s.LFSR[0]
}

// SnowKeystreamWord: word t of the keystream for key words k and IV words iv (same as SnowWord).
func SnowKeystreamWord(k, iv [4]uint32, t int) uint32 {
	return SnowWorkZ(SnowInit(k, iv), t)
}
