package spec

// ---------------- GPRS timers (TS 24.008 10.5.7.4 and 10.5.7.4a) ----------------

// GPRSTimer2Dec: seconds denoted by a GPRS timer 2 octet: bits 8-6 unit (000: 2 s, 001: 1 minute, 010: decihours,
// 111: deactivated, other values: 1 minute), bits 5-1 value.
func GPRSTimer2Dec(o uint8) int {
	v := int(o & 0x1f)
	switch o >> 5 {
	case 0:
		return 2 * v
	case 1:
		return 60 * v
	case 2:
		return 360 * v
	case 7:
		return 0
	}
	return 60 * v
}

// GPRSTimer2Repr: d seconds is representable as a GPRS timer 2.
func GPRSTimer2Repr(d int) bool {
	return d >= 0 && ((d%2 == 0 && d/2 <= 31) || (d%60 == 0 && d/60 <= 31) || (d%360 == 0 && d/360 <= 31))
}

// GPRSTimer3Dec: seconds denoted by a GPRS timer 3 octet: unit 000: 10 minutes, 001: 1 hour, 010: 10 hours,
// 011: 2 seconds, 100: 30 seconds, 101: 1 minute, 110: 320 hours, 111: deactivated.
func GPRSTimer3Dec(o uint8) int {
	v := int(o & 0x1f)
	switch o >> 5 {
	case 0:
		return 600 * v
	case 1:
		return 3600 * v
	case 2:
		return 36000 * v
	case 3:
		return 2 * v
	case 4:
		return 30 * v
	case 5:
		return 60 * v
	case 6:
		return 1152000 * v
	}
	return 0
}

// GPRSTimer3Repr: d seconds is representable as a GPRS timer 3.
func GPRSTimer3Repr(d int) bool {
	if d < 0 {
		return false
	}
	return (d%2 == 0 && d/2 <= 31) || (d%30 == 0 && d/30 <= 31) || (d%60 == 0 && d/60 <= 31) || (d%600 == 0 && d/600 <= 31) ||
		(d%3600 == 0 && d/3600 <= 31) || (d%36000 == 0 && d/36000 <= 31) || (d%1152000 == 0 && d/1152000 <= 31)
}

// ---------------- time zone (TS 24.008 10.5.3.8, TS 23.040 9.2.3.11) ----------------

// TimeZoneSeconds: offset from UTC denoted by the time zone octet: semi-octet-swapped BCD count of quarters of an
// hour (first semi-octet = units in bits 8-5, second = tens in bits 3-1), bit 4 = sign (1: negative).
func TimeZoneSeconds(o uint8) int {
	q := int(o&0x07)*10 + int(o>>4)
	if o&0x08 != 0 {
		return -900 * q
	}
	return 900 * q
}

// BCDField: the value of a semi-octet-swapped BCD octet (TS 23.040 9.1.2.3): low semi-octet = tens, high = units.
func BCDField(o uint8) int { return int(o&0x0f)*10 + int(o>>4) }

// ---------------- GSM 7-bit default alphabet packing (TS 23.038 6.1.2.1) ----------------

// Septet: septet t of a packed octet string: bits 7t..7t+6 of the string read least significant bit first.
func Septet(buf []uint8, t int) uint8 {
	pos := 7 * t
	shift := uint(pos % 8)
	v := buf[pos/8] >> shift
	if shift > 1 {
		v |= buf[pos/8+1] << (8 - shift)
	}
	return v & 0x7f
}
