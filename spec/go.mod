module verif/spec

go 1.21
