package spec

import "testing"

// Published test vectors: the spec functions must reproduce them (sanity of the oracle itself).
func TestSnow3GSet1(t *testing.T) {
	// ETSI/SAGE UEA2 & UIA2 implementors' test data, SNOW 3G test set 1
	k := [4]uint32{0x2BD6459F, 0x82C5B300, 0x952C4910, 0x4881FF48}
	iv := [4]uint32{0xEA024714, 0xAD5C4D84, 0xDF1F9B25, 0x1C0BF45F}
	if z := SnowWord(k, iv, 0); z != 0xABEE9704 {
		t.Fatalf("z1 = %08x", z)
	}
	if z := SnowWord(k, iv, 1); z != 0x7AC31373 {
		t.Fatalf("z2 = %08x", z)
	}
}

func TestZucVectors(t *testing.T) {
	var k, iv [16]uint8
	if z := [2]uint32{ZucWord(k, iv, 0), ZucWord(k, iv, 1)}; z != [2]uint32{0x27bede74, 0x018082da} {
		t.Fatalf("set 1: %08x", z)
	}
	for i := range k {
		k[i], iv[i] = 0xff, 0xff
	}
	if z := [2]uint32{ZucWord(k, iv, 0), ZucWord(k, iv, 1)}; z != [2]uint32{0x0657cfa0, 0x7096398b} {
		t.Fatalf("set 2: %08x", z)
	}
}

func TestEIA1Set1(t *testing.T) {
	// UIA2 implementors' test data set 1 (COUNT-I 38A6F056, BEARER 1F, DIRECTION 0, LENGTH 88)
	ik := [16]uint8{0x2b, 0xd6, 0x45, 0x9f, 0x82, 0xc5, 0xb3, 0x00, 0x95, 0x2c, 0x49, 0x10, 0x48, 0x81, 0xff, 0x48}
	msg := []uint8{0x33, 0x32, 0x34, 0x62, 0x63, 0x39, 0x38, 0x61, 0x37, 0x34, 0x79, 0, 0, 0, 0, 0}
	if m := EIA1(ik, 0x38a6f056, 0x1f, 0, msg, 88); m != 0x731f1165 {
		t.Fatalf("EIA1 = %08x", m)
	}
	ik2 := [16]uint8{0x7e, 0x5e, 0x94, 0x43, 0x1e, 0x11, 0xd7, 0x38, 0x28, 0xd7, 0x39, 0xcc, 0x6c, 0xed, 0x45, 0x73}
	msg2 := []uint8{0xb3, 0xd3, 0xc9, 0x17, 0x0a, 0x4e, 0x16, 0x32, 0xf6, 0x0f, 0x86, 0x10, 0x13, 0xd2, 0x2d, 0x84,
		0xb7, 0x26, 0xb6, 0xa2, 0x78, 0xd8, 0x02, 0xd1, 0xee, 0xaf, 0x13, 0x21, 0xba, 0x59, 0x29, 0xdc}
	if m := EIA1(ik2, 0x36af6144, 0x18, 1, msg2, 254); m != 0xe3259f6f {
		t.Fatalf("EIA1 set 2 = %08x", m)
	}
}

func eia3(ik [16]uint8, count uint32, bearer, dir uint8, msg []uint8, length int) uint32 {
	L := (length+31)/32 + 2
	z := make([]uint32, L)
	for i := range z {
		z[i] = ZucKeystreamWord(ik, EIA3IV(count, bearer, dir), i)
	}
	return EIA3Mac(msg, z, length)
}

func TestEIA3Sets(t *testing.T) {
	var ik [16]uint8
	if m := eia3(ik, 0, 0, 0, []uint8{0, 0, 0, 0}, 1); m != 0xc8a9595e {
		t.Fatalf("EIA3 set 1 = %08x", m)
	}
	ik2 := [16]uint8{0x47, 0x05, 0x41, 0x25, 0x56, 0x1e, 0xb2, 0xdd, 0xa9, 0x40, 0x59, 0xda, 0x05, 0x09, 0x78, 0x50}
	if m := eia3(ik2, 0x561eb2dd, 0x14, 0, make([]uint8, 12), 90); m != 0x6719a088 {
		t.Fatalf("EIA3 set 2 = %08x", m)
	}
}

func TestEEA3Set1(t *testing.T) {
	// EEA3 test set 1: key 173d14ba5003731d7a60049470f00a29, COUNT 66035492, BEARER f, DIRECTION 0, first ciphertext word a6c85fc6
	ck := [16]uint8{0x17, 0x3d, 0x14, 0xba, 0x50, 0x03, 0x73, 0x1d, 0x7a, 0x60, 0x04, 0x94, 0x70, 0xf0, 0x0a, 0x29}
	in := []uint8{0x6c, 0xf6, 0x53, 0x40}
	want := []uint8{0xa6, 0xc8, 0x5f, 0xc6}
	for j := range in {
		if got := in[j] ^ EEA3KS(ck, 0x66035492, 0xf, 0, j); got != want[j] {
			t.Fatalf("EEA3 octet %d = %02x", j, got)
		}
	}
}
