package spec

import "testing"

// Published test vectors: the spec functions must reproduce them (sanity of the oracle itself).
func TestSnow3GSet1(t *testing.T) {
	// ETSI/SAGE UEA2 & UIA2 implementors' test data, SNOW 3G test set 1
	k := [4]uint32{0x2BD6459F, 0x82C5B300, 0x952C4910, 0x4881FF48}
	iv := [4]uint32{0xEA024714, 0xAD5C4D84, 0xDF1F9B25, 0x1C0BF45F}
	if z := SnowWord(k, iv, 0); z != 0xABEE9704 {
		t.Fatalf("z1 = %08x", z)
	}
	if z := SnowWord(k, iv, 1); z != 0x7AC31373 {
		t.Fatalf("z2 = %08x", z)
	}
}

func TestZucVectors(t *testing.T) {
	var k, iv [16]uint8
	if z := [2]uint32{ZucWord(k, iv, 0), ZucWord(k, iv, 1)}; z != [2]uint32{0x27bede74, 0x018082da} {
		t.Fatalf("set 1: %08x", z)
	}
	for i := range k {
		k[i], iv[i] = 0xff, 0xff
	}
	if z := [2]uint32{ZucWord(k, iv, 0), ZucWord(k, iv, 1)}; z != [2]uint32{0x0657cfa0, 0x7096398b} {
		t.Fatalf("set 2: %08x", z)
	}
}
