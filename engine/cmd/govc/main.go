package main

import (
	"flag"
	"fmt"
	"os"
	"strconv"

	"verif/engine/internal/core"
	"verif/engine/internal/props"
)

func main() {
	if len(os.Args) < 3 || os.Args[1] != "check" {
		fmt.Fprintln(os.Stderr, "usage: govc check <Cxx> [--tier quick|thorough]")
		os.Exit(2)
	}
	id := os.Args[2]
	fs := flag.NewFlagSet("check", flag.ExitOnError)
	tier := fs.String("tier", "quick", "quick|thorough")
	fs.Parse(os.Args[3:])
	if t := os.Getenv("VERIF_TIER"); t != "" && *tier == "" {
		*tier = t
	}
	seed, _ := strconv.Atoi(os.Getenv("VERIF_SEED"))
	drv, ok := props.Registry[id]
	if !ok {
		fmt.Fprintln(os.Stderr, "unknown property", id)
		os.Exit(2)
	}
	rep := core.NewReport(id, *tier, seed)
	w, err := core.Load()
	if err != nil {
		if be, ok := err.(*core.BindingError); ok {
			// a contract no longer matches the code: report as violation without input
			w = &core.World{}
			for _, m := range be.Missing {
				rep.Aborted[m] = "contract-binding: function named by the contract does not exist in the current tree"
			}
			os.Exit(rep.Finish(w))
		}
		fmt.Fprintln(os.Stderr, "load failed:", err)
		os.Exit(2)
	}
	func() {
		defer func() {
			if r := recover(); r != nil {
				rep.Broken = fmt.Sprint(r)
			}
		}()
		drv(w, rep)
	}()
	os.Exit(rep.Finish(w))
}
