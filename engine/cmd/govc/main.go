package main

import (
	"flag"
	"fmt"
	"golang.org/x/tools/go/ssa"
	"os"
	"strconv"
	"strings"
	"time"
	"verif/engine/internal/smt"
	"verif/engine/internal/sym"

	"verif/engine/internal/core"
	"verif/engine/internal/props"
)

func debugFn(keys []string) {
	w, err := core.Load()
	if err != nil {
		fmt.Println("load:", err)
		os.Exit(2)
	}
	rep := core.NewReport("DBG", "quick", 0)
	if pkg := os.Getenv("VERIF_INLINE_PKG"); pkg != "" {
		for k := range w.Cx.Contracts {
			if strings.Contains(k, pkg) {
				delete(w.Cx.Contracts, k)
			}
		}
		base := w.Cx.Loops
		w.Cx.Loops = func(fn *ssa.Function, ord int) *sym.LoopSpec {
			if fn.Pkg != nil && fn.Pkg.Pkg.Name() == pkg {
				return nil
			}
			return base(fn, ord)
		}
		w.Cx.MaxVisits = 5
		if v, err := strconv.Atoi(os.Getenv("VERIF_MAXVISITS")); err == nil {
			w.Cx.MaxVisits = v
		}
		w.Cx.MaxPaths = 2000
		w.Cx.NoMerge = os.Getenv("VERIF_NOMERGE") != ""
		if os.Getenv("VERIF_FEASIBLE") != "" {
			sym.Feasible = func(pc []*smt.Term) bool {
				return smt.Solve(pc, smt.Options{Timeout: 2 * time.Second, OnlyFirst: true}).Status != "unsat"
			}
		}
	}
	if contractMode {
		props.RunJobs(w, rep, props.ContractJobs(w, rep, keys))
	} else {
		props.RunJobs(w, rep, props.SafetyJobs(w, rep, keys))
	}
	for f, r := range rep.Aborted {
		fmt.Println("ABORTED", f, ":", r)
	}
	for _, o := range rep.Outcomes {
		if o.Status != "discharged" {
			if o.Script != "" {
				os.WriteFile("/tmp/dbg.smt2", []byte(o.Script), 0o644)
			}
			fmt.Printf("%-10s %s [%s] paths=%d %s (%s) %.2fs\n   model=%v\n", o.Status, o.Name, o.Backend, o.Members, o.Info, o.Pos, o.Seconds, o.Model)
		}
	}
	n := 0
	for _, o := range rep.Outcomes {
		if o.Status == "discharged" {
			n++
		}
	}
	fmt.Printf("%d outcomes, %d discharged\n", len(rep.Outcomes), n)
}

func debugCodec(keys []string) {
	w, err := core.Load()
	if err != nil {
		fmt.Println("load:", err)
		os.Exit(2)
	}
	rep := core.NewReport("DBG", "quick", 0)
	jobs, _ := props.CodecJobs(w, rep, "encode", "decode")
	var sel []props.Job
	for _, j := range jobs {
		for _, k := range keys {
			if strings.Contains(j.Fn.String(), k) {
				sel = append(sel, j)
			}
		}
	}
	props.RunJobs(w, rep, sel)
	for f, r := range rep.Aborted {
		fmt.Println("ABORTED", f, ":", r)
	}
	n := 0
	var tot float64
	for _, o := range rep.Outcomes {
		tot += o.Seconds
		if o.Status != "discharged" {
			if o.Script != "" {
				os.WriteFile("/tmp/dbg.smt2", []byte(o.Script), 0o644)
			}
			fmt.Printf("%-10s %s [%s] paths=%d size=%d %.2fs\n   %s\n   model=%v arr=%v\n", o.Status, o.Name, o.Backend, o.Members, o.Size, o.Seconds, o.Info, o.Model, o.Arr)
		} else {
			n++
		}
		if o.Seconds > 1 {
			fmt.Printf("SLOW %s %.1fs paths=%d size=%d [%s]\n", o.Name, o.Seconds, o.Members, o.Size, o.Backend)
		}
	}
	fmt.Printf("%d outcomes, %d discharged, %.1fs solver wall\n", len(rep.Outcomes), n, tot)
}

var contractMode bool

func main() {
	if len(os.Args) >= 3 && os.Args[1] == "codec" {
		debugCodec(os.Args[2:])
		return
	}
	if len(os.Args) >= 3 && (os.Args[1] == "fn" || os.Args[1] == "cfn") {
		contractMode = os.Args[1] == "cfn"
		debugFn(os.Args[2:])
		return
	}
	if len(os.Args) < 3 || os.Args[1] != "check" {
		fmt.Fprintln(os.Stderr, "usage: govc check <Cxx> [--tier quick|thorough]")
		os.Exit(2)
	}
	id := os.Args[2]
	fs := flag.NewFlagSet("check", flag.ExitOnError)
	tier := fs.String("tier", "quick", "quick|thorough")
	fs.Parse(os.Args[3:])
	if t := os.Getenv("VERIF_TIER"); t != "" && *tier == "" {
		*tier = t
	}
	seed, _ := strconv.Atoi(os.Getenv("VERIF_SEED"))
	drv, ok := props.Registry[id]
	if !ok {
		fmt.Fprintln(os.Stderr, "unknown property", id)
		os.Exit(2)
	}
	rep := core.NewReport(id, *tier, seed)
	w, err := core.Load()
	if err != nil {
		if be, ok := err.(*core.BindingError); ok {
			// a contract no longer matches the code: report as violation without input
			w = &core.World{}
			for _, m := range be.Missing {
				rep.Aborted[m] = "contract-binding: function named by the contract does not exist in the current tree"
			}
			os.Exit(rep.Finish(w))
		}
		fmt.Fprintln(os.Stderr, "load failed:", err)
		os.Exit(2)
	}
	func() {
		defer func() {
			if r := recover(); r != nil {
				rep.Broken = fmt.Sprint(r)
			}
		}()
		drv(w, rep)
	}()
	os.Exit(rep.Finish(w))
}
