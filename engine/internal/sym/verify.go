package sym

import (
	"fmt"
	"go/types"
	"runtime/debug"
	"strings"

	"golang.org/x/tools/go/ssa"

	. "verif/engine/internal/smt"
)

// SymValue builds a fully symbolic value of type t (used for parameters, havoc and contract results).
func (fx *FnExec) SymValue(st *State, t types.Type, name string, depth int) Value {
	cx := fx.Cx
	switch u := t.Underlying().(type) {
	case *types.Basic:
		if u.Info()&types.IsBoolean != 0 {
			return Scalar{cx.Fresh(name, Bool)}
		}
		if u.Info()&types.IsString != 0 {
			l := cx.Fresh(name+".len", BV(64))
			if n, ok := fx.PinLen[strings.ReplaceAll(name, "*", "")]; ok {
				l = BV64(n)
			}
			st.Assume(ULt(l, BV64(1<<40)))
			return StrV{C: CSym{cx.Fresh(name, Arr(64, 8))}, Off: BV64(0), Len: l}
		}
		if w, ok := IsByteLike(t); ok {
			return Scalar{cx.Fresh(name, BV(w))}
		}
	case *types.Struct:
		f := make([]Value, u.NumFields())
		for i := range f {
			f[i] = fx.SymValue(st, u.Field(i).Type(), name+"."+u.Field(i).Name(), depth)
		}
		return StructV{f}
	case *types.Array:
		n := int(u.Len())
		if w, ok := IsByteLike(u.Elem()); ok {
			if n <= vecMax {
				e := make([]*Term, n)
				for i := range e {
					e[i] = cx.Fresh(fmt.Sprintf("%s[%d]", name, i), BV(w))
				}
				return ArrV{EW: w, Len: BV64(uint64(n)), C: CVec{E: e, W: w}}
			}
			return ArrV{EW: w, Len: BV64(uint64(n)), C: CSym{cx.Fresh(name, Arr(64, w))}}
		}
		es := make([]Value, n)
		for i := range es {
			es[i] = fx.SymValue(st, u.Elem(), fmt.Sprintf("%s[%d]", name, i), depth)
		}
		return ArrS{es}
	case *types.Pointer:
		if depth > 5 {
			return PtrV{Nil: True}
		}
		nl := cx.Fresh(name+".nil", Bool)
		o := cx.NewObj("*"+name, u.Elem(), ProvParam)
		st.Heap[o] = fx.SymValue(st, u.Elem(), "*"+name, depth+1)
		return PtrV{Nil: nl, Obj: o}
	case *types.Slice:
		if w, ok := IsByteLike(u.Elem()); ok {
			nl := cx.Fresh(name+".nil", Bool)
			ln := cx.Fresh(name+".len", BV(64))
			cp := cx.Fresh(name+".cap", BV(64))
			if n, ok := fx.PinLen[strings.ReplaceAll(name, "*", "")]; ok {
				ln = BV64(n)
				if n > 0 {
					nl = False
				}
			}
			st.Assume(ULe(ln, cp))
			st.Assume(ULt(cp, BV64(1<<40)))
			st.Assume(Implies(nl, Eq(cp, BV64(0))))
			o := cx.NewObj(name+".arr", t, ProvParam)
			st.Heap[o] = ArrV{EW: w, Len: cp, C: CSym{cx.Fresh(name, Arr(64, w))}}
			return SliceV{Nil: nl, Obj: o, Off: BV64(0), Len: ln, Cap: cp}
		}
		nl := cx.Fresh(name+".nil", Bool)
		ln := cx.Fresh(name+".len", BV(64))
		cp := cx.Fresh(name+".cap", BV(64))
		st.Assume(ULe(ln, cp))
		st.Assume(ULt(cp, BV64(1<<32)))
		st.Assume(Implies(nl, Eq(cp, BV64(0))))
		o := cx.NewObj(name+".arr", t, ProvParam)
		st.Heap[o] = cx.NewArrU(u.Elem(), cp)
		return SliceV{Nil: nl, Obj: o, Off: BV64(0), Len: ln, Cap: cp}
	case *types.Interface:
		if IsErrorType(t) {
			return ErrV{cx.Fresh(name, BV(8))}
		}
		return Opaque{Name: "iface:" + name, T: t}
	case *types.Map:
		kw, ok1 := IsByteLike(u.Key())
		vw, ok2 := IsByteLike(u.Elem())
		if ok1 && ok2 {
			o := cx.NewObj(name+".map", t, ProvParam)
			st.Heap[o] = MapContent{Present: cx.Fresh(name+".present", Arr(64, 1)), Val: cx.Fresh(name+".val", Arr(64, vw)), KW: kw, VW: vw}
			return MapV{Nil: cx.Fresh(name+".nil", Bool), Obj: o}
		}
		return Opaque{Name: "map:" + name, T: t}
	case *types.Signature:
		return Opaque{Name: "func:" + name, T: t}
	}
	panic(Unsupported{"symbolic value of type " + t.String()})
}

// FnSpec: what to assume at entry and what to prove at each return of the function under check.
type FnSpec struct {
	// Requires may constrain the entry state (st.Assume) given symbolic args.
	Requires func(fx *FnExec, st *State, args []Value)
	// Post is called at every return with the entry state snapshot; it emits obligations via fx.Oblige.
	Post func(fx *FnExec, entry, exit *State, args []Value, ret Value, retIdx int)
	// Args optionally overrides construction of symbolic arguments.
	Args func(fx *FnExec, st *State) []Value
	// OnJoin: see FnExec.OnJoin.
	OnJoin func(fx *FnExec, fr *Frame, st *State, ifBlock *ssa.BasicBlock)
	// PinLen fixes the length of the string / byte-slice parameters (or fields, "param.Field") named here to a
	// constant (length case of a contract); Tag is appended to every obligation name of the run.
	PinLen map[string]uint64
	Tag    string
}

// VerifyFunc symbolically executes fn from a fully symbolic entry state and collects obligations.
func (cx *Ctx) VerifyFunc(fn *ssa.Function, spec *FnSpec) (fx *FnExec) {
	fx = cx.NewFnExec(fn)
	defer func() {
		if r := recover(); r != nil {
			switch e := r.(type) {
			case Unsupported:
				fx.Aborted = e.Error()
			case abortExec:
				fx.Aborted = e.reason
			default:
				fx.Aborted = fmt.Sprintf("internal error: %v\n%s", r, debug.Stack())
			}
		}
	}()
	st := &State{Heap: map[*Object]Value{}, Ghost: map[string]*Term{"alloc": BV64(0)}}
	var args []Value
	if spec != nil {
		fx.PinLen, fx.Tag = spec.PinLen, spec.Tag
	}
	// package-level variables that non-initialiser code writes to hold an arbitrary value at entry
	for _, g := range cx.MutableGlobals() {
		func() {
			defer func() {
				if r := recover(); r != nil {
					if _, ok := r.(Unsupported); !ok {
						panic(r)
					}
				}
			}()
			o := cx.globalObj(g)
			st.Heap[o] = fx.SymValue(st, g.Type().(*types.Pointer).Elem(), "global."+g.Name(), 0)
			cx.Note("package-level variable " + g.String() + " is written outside package initialisation: its value at function entry is unconstrained")
		}()
	}
	if spec != nil && spec.Args != nil {
		args = spec.Args(fx, st)
	} else {
		for _, p := range fn.Params {
			args = append(args, fx.SymValue(st, p.Type(), p.Name(), 0))
		}
	}
	if spec != nil && spec.Requires != nil {
		spec.Requires(fx, st, args)
	}
	entry := st.Clone()
	ei := &EntryInfo{Fn: fn}
	for i, p := range fn.Params {
		ei.Params = append(ei.Params, ParamInfo{Name: p.Name(), Typ: p.Type(), Val: args[i], Heap: entry.Heap})
	}
	fx.Entry = ei
	fx.EntryArgs = args
	fx.EntryState = entry
	if spec != nil && spec.OnJoin != nil {
		fx.OnJoin = spec.OnJoin
	}
	// vacuity guard: requires must be satisfiable
	fx.Obls = append(fx.Obls, &Oblig{Name: FuncName(fn) + "#cover.requires" + fx.tagSuffix(), Kind: "cover", Fn: FuncName(fn), Assumes: append([]*Term(nil), st.PC...), Goal: True, Cover: true, Entry: ei})
	ri := 0
	fx.execFunc(nil, fn, args, st, "", func(exit *State, ret Value) {
		if spec != nil && spec.Post != nil {
			spec.Post(fx, entry, exit, args, ret, ri)
		}
		ri++
	})
	return fx
}

// ---------------- loop cut-points ----------------

type loopInfo struct {
	measure *Term
	entry   *State
	head    *State
	headFr  *Frame
}

// LoopHead returns the state that was assumed at the head of the (single) cut loop the path is in or has
// passed through, or nil if the path never reached a cut loop.
func (fr *Frame) LoopHead() (*State, *Frame) {
	for _, li := range fr.loopInfo {
		if li != nil && li.head != nil {
			return li.head, li.headFr
		}
	}
	return nil, nil
}

func (fx *FnExec) havocValue(st *State, v Value, t types.Type, name string) Value {
	switch x := v.(type) {
	case Scalar:
		return Scalar{fx.Cx.Fresh(name, x.T.S)}
	case ErrV:
		return ErrV{fx.Cx.Fresh(name, BV(8))}
	case StructV:
		f := make([]Value, len(x.F))
		var stt *types.Struct
		if t != nil {
			stt, _ = t.Underlying().(*types.Struct)
		}
		for i := range f {
			var ft types.Type
			nm := fmt.Sprintf("%s.%d", name, i)
			if stt != nil {
				ft = stt.Field(i).Type()
				nm = name + "." + stt.Field(i).Name()
			}
			f[i] = fx.havocValue(st, x.F[i], ft, nm)
		}
		return StructV{f}
	case ArrV:
		if cv, ok := x.C.(CVec); ok {
			e := make([]*Term, len(cv.E))
			for i := range e {
				e[i] = fx.Cx.Fresh(fmt.Sprintf("%s[%d]", name, i), BV(cv.W))
			}
			return ArrV{EW: x.EW, Len: x.Len, C: CVec{E: e, W: cv.W}}
		}
		return ArrV{EW: x.EW, Len: x.Len, C: CSym{fx.Cx.Fresh(name, Arr(64, x.EW))}}
	case ArrS:
		e := make([]Value, len(x.Elems))
		var et types.Type
		if t != nil {
			if at, ok := t.Underlying().(*types.Array); ok {
				et = at.Elem()
			}
		}
		for i := range e {
			e[i] = fx.havocValue(st, x.Elems[i], et, fmt.Sprintf("%s[%d]", name, i))
		}
		return ArrS{e}
	case StrV:
		if t == nil {
			t = types.Typ[types.String]
		}
		return fx.SymValue(st, t, name, 0)
	case PtrV, SliceV, MapV:
		if t == nil {
			panic(Unsupported{"havoc of reference without type"})
		}
		return fx.SymValue(st, t, name, 1)
	case ArrU:
		return fx.Cx.NewArrU(x.ET, x.Len)
	case MapContent:
		return MapContent{Present: fx.Cx.Fresh(name+".present", Arr(64, 1)), Val: fx.Cx.Fresh(name+".val", Arr(64, x.VW)), KW: x.KW, VW: x.VW}
	case Opaque:
		return x
	case IfaceV:
		return Opaque{Name: "havoc-iface", T: t}
	case *rangeIter:
		return &rangeIter{X: x.X, Pos: fx.Cx.Fresh(name+".pos", BV(64))}
	}
	panic(Unsupported{fmt.Sprintf("havoc of %T", v)})
}

type writeRec struct {
	obj  *Object
	path Path // truncated at first index element
}

func truncPath(p Path) Path {
	for i, e := range p {
		if e.Field < 0 {
			return p[:i]
		}
	}
	return p
}

func typeAtPath(t types.Type, p Path) types.Type {
	for _, e := range p {
		if t == nil {
			return nil
		}
		switch u := t.Underlying().(type) {
		case *types.Struct:
			if e.Field >= 0 {
				t = u.Field(e.Field).Type()
			} else {
				return nil
			}
		case *types.Array:
			t = u.Elem()
		case *types.Slice:
			t = u.Elem()
		default:
			return nil
		}
	}
	return t
}

func (fx *FnExec) cutLoop(fr *Frame, h *ssa.BasicBlock, prev *ssa.BasicBlock, st *State, k func(*State, Value), ord int, spec *LoopSpec) bool {
	blocks := LoopBlocks(h)
	fname := FuncName(fr.Fn)
	if blocks[prev] {
		// back edge: prove invariant preserved and variant decreased
		li, _ := fr.loopInfo[h]
		if li == nil {
			panic(Unsupported{"back edge without loop entry"})
		}
		for _, nt := range spec.Invariant(fx, fr, st, li.entry, false) {
			fx.Oblige(st, fmt.Sprintf("%s%s#inv.preserve[loop%d.%s]", fr.Prefix, fname, ord, nt.Name), "inv.preserve", nt.T, "", "loop invariant preserved")
		}
		if spec.Decreases != nil {
			m := spec.Decreases(fx, fr, st)
			fx.Oblige(st, fmt.Sprintf("%s%s#variant[loop%d]", fr.Prefix, fname, ord), "variant", And(SLt(m, li.measure), SLe(BV64(0), li.measure)), "", "loop variant decreases and is bounded below")
		}
		if spec.OnBackEdge != nil && fx.discoverLoop == nil {
			spec.OnBackEdge(fx, li.head, li.headFr, fr, st)
		}
		return true
	}
	// entry from outside
	entrySnap := st.Clone()
	for _, nt := range spec.Invariant(fx, fr, st, entrySnap, false) {
		fx.Oblige(st, fmt.Sprintf("%s%s#inv.init[loop%d.%s]", fr.Prefix, fname, ord, nt.Name), "inv.init", nt.T, "", "loop invariant holds on entry")
	}
	if spec.OnEntry != nil && fx.discoverLoop == nil {
		spec.OnEntry(fx, fr, st)
	}
	// discover the write set of the loop body (fixpoint)
	var wset []writeRec
	has := func(w writeRec) bool {
		for _, x := range wset {
			if x.obj == w.obj && pathEq(x.path, w.path) {
				return true
			}
			// prefix covers
			if x.obj == w.obj && len(x.path) <= len(w.path) && pathEq(x.path, w.path[:len(x.path)]) {
				return true
			}
		}
		return false
	}
	var phis []*ssa.Phi
	for _, in := range h.Instrs {
		if p, ok := in.(*ssa.Phi); ok {
			phis = append(phis, p)
		} else {
			break
		}
	}
	mkHavoc := func(base *State, bfr *Frame) (*State, *Frame) {
		s2 := base.Clone()
		f2 := bfr.fork()
		for _, p := range phis {
			f2.Env[p] = fx.havocValue(s2, f2.Env[p], p.Type(), p.Name()+"@"+p.Comment)
		}
		for g := range s2.Ghost {
			s2.Ghost[g] = fx.Cx.Fresh(fmt.Sprintf("loop%d.ghost.%s", ord, g), BV(64))
		}
		for _, w := range wset {
			cur, ok := s2.Heap[w.obj]
			if !ok {
				continue
			}
			old := fx.readPath(s2, cur, w.path, nil)
			nv := fx.havocValue(s2, old, typeAtPath(w.obj.Typ, w.path), fmt.Sprintf("loop%d.%s", ord, w.obj.Name))
			s2.Heap[w.obj] = fx.writePath(cur, w.path, nv)
		}
		return s2, f2
	}
	for iter := 0; iter < 6; iter++ {
		s2, f2 := mkHavoc(st, fr)
		sub := &FnExec{Cx: fx.Cx, Fn: fx.Fn, ordinals: fx.ordinals, Trusted: fx.Trusted, Inlined: fx.Inlined, Applied: fx.Applied, Entry: fx.Entry}
		added := false
		pre := map[*Object]bool{}
		for o := range s2.Heap {
			pre[o] = true
		}
		sub.OnStore = func(_ *FnExec, _ *State, o *Object, p Path, site string) {
			if !pre[o] {
				return
			}
			w := writeRec{o, append(Path(nil), truncPath(p)...)}
			if !has(w) {
				wset = append(wset, w)
				added = true
			}
		}
		sub.discoverLoop = blocks
		sub.discoverHeader = h
		f2.loopInfo = map[*ssa.BasicBlock]*loopInfo{}
		func() {
			defer func() {
				if r := recover(); r != nil {
					if _, ok := r.(abortExec); ok {
						panic(r)
					}
					panic(r)
				}
			}()
			sub.runFrom(f2, h, 0, s2, func(*State, Value) {})
		}()
		if !added {
			break
		}
	}
	s2, f2 := mkHavoc(st, fr)
	for _, nt := range spec.Invariant(fx, f2, s2, entrySnap, true) {
		s2.Assume(nt.T)
	}
	li := &loopInfo{entry: entrySnap}
	if spec.Decreases != nil {
		li.measure = spec.Decreases(fx, f2, s2)
	}
	li.head = s2.Clone()
	li.headFr = f2.fork()
	if f2.loopInfo == nil {
		f2.loopInfo = map[*ssa.BasicBlock]*loopInfo{}
	}
	f2.loopInfo[h] = li
	// the real pass must not write outside the discovered set
	saved := fx.OnStore
	fx.OnStore = func(a *FnExec, s *State, o *Object, p Path, site string) {
		if saved != nil {
			saved(a, s, o, p, site)
		}
	}
	fx.runFrom(f2, h, 0, s2, k)
	fx.OnStore = saved
	return true
}

// ---------------- deep equality / pure evaluation ----------------

// EqV returns a term stating that two values of the same shape are equal. Arrays with symbolic content are
// compared at a fresh (skolem) index, so the result is only meaningful in goal position.
func (fx *FnExec) EqV(a, b Value) *Term {
	switch x := a.(type) {
	case Scalar:
		return Eq(x.T, b.(Scalar).T)
	case ErrV:
		return Eq(x.Code, b.(ErrV).Code)
	case StructV:
		y := b.(StructV)
		var cs []*Term
		for i := range x.F {
			cs = append(cs, fx.EqV(x.F[i], y.F[i]))
		}
		return And(cs...)
	case ArrS:
		y := b.(ArrS)
		if len(x.Elems) != len(y.Elems) {
			return False
		}
		var cs []*Term
		for i := range x.Elems {
			cs = append(cs, fx.EqV(x.Elems[i], y.Elems[i]))
		}
		return And(cs...)
	case ArrV:
		y := b.(ArrV)
		return And(Eq(x.Len, y.Len), fx.EqContent(x.C, BV64(0), y.C, BV64(0), x.Len))
	case StrV:
		y := b.(StrV)
		return And(Eq(x.Len, y.Len), fx.EqContent(x.C, x.Off, y.C, y.Off, x.Len))
	case PtrV:
		y := b.(PtrV)
		if x.Obj == y.Obj && pathEq(x.Path, y.Path) {
			return Eq(x.Nil, y.Nil)
		}
		return And(x.Nil, y.Nil)
	case SliceV:
		y := b.(SliceV)
		if x.Obj == y.Obj && pathEq(x.Path, y.Path) {
			return And(Eq(x.Nil, y.Nil), Eq(x.Off, y.Off), Eq(x.Len, y.Len), Eq(x.Cap, y.Cap))
		}
		return And(x.Nil, y.Nil)
	case MapV:
		y := b.(MapV)
		if x.Obj == y.Obj {
			return Eq(x.Nil, y.Nil)
		}
		return And(x.Nil, y.Nil)
	case MapContent:
		y := b.(MapContent)
		k := fx.Cx.Fresh("sk.key", BV(64))
		return And(Eq(Select(x.Present, k), Select(y.Present, k)), Implies(Eq(Select(x.Present, k), BVC(1, 1)), Eq(Select(x.Val, k), Select(y.Val, k))))
	case ArrU:
		y, ok := b.(ArrU)
		if ok && y.ID == x.ID {
			return True
		}
		return False
	case Opaque:
		return True
	case nil:
		return BoolC(b == nil)
	}
	panic(Unsupported{fmt.Sprintf("EqV on %T", a)})
}

// EqContent: a[aoff+i] == b[boff+i] for all i < n (goal position; skolemised unless small and explicit).
func (fx *FnExec) EqContent(a Content, aoff *Term, b Content, boff *Term, n *Term) *Term {
	if n.IsConst() && n.Val <= vecMax {
		var cs []*Term
		for i := uint64(0); i < n.Val; i++ {
			cs = append(cs, Eq(a.Elem(Add(aoff, BV64(i))), b.Elem(Add(boff, BV64(i)))))
		}
		return And(cs...)
	}
	i := fx.Cx.Fresh("sk.idx", BV(64))
	e := Eq(a.Elem(Add(aoff, i)), b.Elem(Add(boff, i)))
	if e.IsTrue() {
		return True
	}
	return Implies(ULt(i, n), e)
}

// EvalPure runs fn on args from state st without emitting obligations and merges all returns into one value.
// fuel: nesting depth up to which calls of functions of fn's own package are unfolded (deeper ones are opaque).
func (fx *FnExec) EvalPure(fn *ssa.Function, args []Value, st *State, fuel int, opaque map[string]bool) Value {
	return fx.EvalPureCB(fn, args, st, fuel, opaque, nil)
}

// EvalPureCB: as EvalPure; onOpaque is told about every nested call that was left uninterpreted.
func (fx *FnExec) EvalPureCB(fn *ssa.Function, args []Value, st *State, fuel int, opaque map[string]bool, onOpaque func(f *ssa.Function, args []Value, res Value)) Value {
	sub := &FnExec{Cx: fx.Cx, Fn: fn, ordinals: map[ssa.Instruction]map[string]int{}, Trusted: fx.Trusted, Inlined: map[string]bool{}, Applied: map[string]bool{}}
	sub.mute = true
	sub.SpecOpaque = func(f *ssa.Function, depth int) bool {
		return f.Pkg == fn.Pkg && (depth >= fuel || opaque[f.Name()])
	}
	sub.OnOpaque = onOpaque
	s0 := st.Clone()
	base := len(s0.PC)
	type res struct {
		c *Term
		v Value
	}
	var rs []res
	sub.execFunc(nil, fn, args, s0, "", func(s *State, r Value) {
		rs = append(rs, res{And(s.PC[base:]...), r})
	})
	if len(rs) == 0 {
		panic(Unsupported{"pure function has no return path: " + fn.String()})
	}
	v := rs[len(rs)-1].v
	for i := len(rs) - 2; i >= 0; i-- {
		v = IteV(rs[i].c, rs[i].v, v)
	}
	return v
}

// HavocLoc replaces the content of (obj, path) by fresh symbolic content of the same shape.
func (fx *FnExec) HavocLoc(st *State, o *Object, p Path, site string) {
	cur, ok := st.Heap[o]
	if !ok {
		fx.Cx.mu.Lock()
		gv, ok2 := fx.Cx.globalHeap[o]
		fx.Cx.mu.Unlock()
		if ok2 {
			cur = gv
		} else {
			return
		}
	}
	p = truncPath(p)
	if fx.OnStore != nil {
		fx.OnStore(fx, st, o, p, site)
	}
	old := fx.readPath(st, cur, p, nil)
	nv := fx.havocValue(st, old, typeAtPath(o.Typ, p), "havoc."+o.Name)
	st.Heap[o] = fx.writePath(cur, p, nv)
}

// ReadLoc returns the value stored at (obj, path) in st (nil if absent).
func (fx *FnExec) ReadLoc(st *State, o *Object, p Path) (v Value) {
	defer func() {
		if r := recover(); r != nil {
			v = nil
		}
	}()
	cur, ok := st.Heap[o]
	if !ok {
		return nil
	}
	return fx.readPath(st, cur, p, nil)
}

// ---------------- uninterpreted (opaque) application of spec functions ----------------

func flattenArg(st *State, v Value, out *[]*Term) {
	switch x := v.(type) {
	case Scalar:
		*out = append(*out, x.T)
	case ErrV:
		*out = append(*out, x.Code)
	case StructV:
		for _, f := range x.F {
			flattenArg(st, f, out)
		}
	case ArrS:
		for _, e := range x.Elems {
			flattenArg(st, e, out)
		}
	case ArrV:
		if cv, ok := x.C.(CVec); ok {
			*out = append(*out, cv.E...)
			return
		}
		*out = append(*out, contentArray(x.C), x.Len)
	case SliceV:
		var c Content = CZero{8}
		if x.Obj != nil {
			if a, ok := st.Heap[x.Obj].(ArrV); ok {
				c = a.C
			}
		}
		*out = append(*out, contentArray(c), x.Off, x.Len)
	case StrV:
		*out = append(*out, contentArray(x.C), x.Off, x.Len)
	default:
		panic(Unsupported{fmt.Sprintf("argument of %T to an uninterpreted spec function", v)})
	}
}

// contentArray gives an SMT array term for a content (only symbolic arrays and constant zero are supported).
func contentArray(c Content) *Term {
	switch x := c.(type) {
	case CSym:
		return x.A
	case CZero:
		return ConstArr(Arr(64, x.W), BVC(x.W, 0))
	case *CStore:
		return Store(contentArray(x.B), x.I, x.V)
	}
	panic(Unsupported{fmt.Sprintf("content %T as argument of an uninterpreted spec function", c)})
}

func opaqueResult(name string, t types.Type, args []*Term) Value {
	switch u := t.Underlying().(type) {
	case *types.Basic:
		if IsBool(t) {
			return Scalar{App(name, Bool, args...)}
		}
		if w, ok := IsByteLike(t); ok {
			return Scalar{App(name, BV(w), args...)}
		}
	case *types.Array:
		n := int(u.Len())
		if w, ok := IsByteLike(u.Elem()); ok && n <= vecMax {
			e := make([]*Term, n)
			for i := range e {
				e[i] = App(fmt.Sprintf("%s#%d", name, i), BV(w), args...)
			}
			return ArrV{EW: w, Len: BV64(uint64(n)), C: CVec{E: e, W: w}}
		}
	case *types.Struct:
		f := make([]Value, u.NumFields())
		for i := range f {
			f[i] = opaqueResult(name+"."+u.Field(i).Name(), u.Field(i).Type(), args)
		}
		return StructV{f}
	}
	panic(Unsupported{"result type " + t.String() + " of an uninterpreted spec function"})
}

// OpaqueApply returns f(args) as applications of uninterpreted functions named after f.
func (fx *FnExec) OpaqueApply(f *ssa.Function, args []Value) Value {
	return fx.OpaqueApplySt(nil, f, args)
}

func (fx *FnExec) OpaqueApplySt(st *State, f *ssa.Function, args []Value) Value {
	var flat []*Term
	if st == nil {
		st = &State{Heap: map[*Object]Value{}}
	}
	for _, a := range args {
		flattenArg(st, a, &flat)
	}
	res := f.Signature.Results()
	if res.Len() != 1 {
		panic(Unsupported{"uninterpreted spec function must have one result: " + f.String()})
	}
	return opaqueResult("spec."+f.Name(), res.At(0).Type(), flat)
}
