package sym

import (
	"sync"

	"golang.org/x/tools/go/ssa"

	. "verif/engine/internal/smt"
)

// ---------------- post-dominators ----------------

var ipdomCache sync.Map

// ipdoms computes immediate post-dominators of fn's blocks (nil = virtual exit).
func ipdoms(fn *ssa.Function) map[*ssa.BasicBlock]*ssa.BasicBlock {
	if v, ok := ipdomCache.Load(fn); ok {
		return v.(map[*ssa.BasicBlock]*ssa.BasicBlock)
	}
	n := len(fn.Blocks)
	// post-dominator sets as bitsets over block indices, plus virtual exit = index n
	full := make([]bool, n+1)
	for i := range full {
		full[i] = true
	}
	pd := make([][]bool, n+1)
	for i := 0; i < n; i++ {
		pd[i] = append([]bool(nil), full...)
	}
	pd[n] = make([]bool, n+1)
	pd[n][n] = true
	succs := func(b *ssa.BasicBlock) []int {
		if len(b.Succs) == 0 {
			return []int{n}
		}
		var s []int
		for _, x := range b.Succs {
			s = append(s, x.Index)
		}
		return s
	}
	changed := true
	for changed {
		changed = false
		for i := n - 1; i >= 0; i-- {
			b := fn.Blocks[i]
			nw := append([]bool(nil), full...)
			for _, s := range succs(b) {
				for k := range nw {
					nw[k] = nw[k] && pd[s][k]
				}
			}
			nw[i] = true
			for k := range nw {
				if nw[k] != pd[i][k] {
					changed = true
				}
			}
			pd[i] = nw
		}
	}
	res := map[*ssa.BasicBlock]*ssa.BasicBlock{}
	for i := 0; i < n; i++ {
		// strict post-dominators of i; the immediate one is the one post-dominated by all others
		var cands []int
		for k := 0; k <= n; k++ {
			if k != i && pd[i][k] {
				cands = append(cands, k)
			}
		}
		best := -1
		for _, c := range cands {
			ok := true
			for _, d := range cands {
				if d != c && !pd[c][d] {
					ok = false
					break
				}
			}
			if ok {
				best = c
				break
			}
		}
		if best >= 0 && best < n {
			res[fn.Blocks[i]] = fn.Blocks[best]
		}
	}
	ipdomCache.Store(fn, res)
	return res
}

type stopRec struct {
	J       *ssa.BasicBlock
	collect func(st *State, fr *Frame, prev *ssa.BasicBlock)
}

type mergeRes struct {
	st   *State
	fr   *Frame
	prev *ssa.BasicBlock
}

func tryIteV(c *Term, a, b Value) (v Value, ok bool) {
	defer func() {
		if r := recover(); r != nil {
			if _, isU := r.(Unsupported); isU {
				ok = false
				return
			}
			panic(r)
		}
	}()
	return IteV(c, a, b), true
}

func sameValue(a, b Value) bool {
	switch x := a.(type) {
	case Scalar:
		y, ok := b.(Scalar)
		return ok && x.T == y.T
	case ErrV:
		y, ok := b.(ErrV)
		return ok && x.Code == y.Code
	case PtrV:
		y, ok := b.(PtrV)
		return ok && x.Obj == y.Obj && x.Nil == y.Nil && pathEq(x.Path, y.Path)
	case SliceV:
		y, ok := b.(SliceV)
		return ok && x.Obj == y.Obj && x.Nil == y.Nil && x.Off == y.Off && x.Len == y.Len && x.Cap == y.Cap && pathEq(x.Path, y.Path)
	case StructV:
		y, ok := b.(StructV)
		if !ok || len(x.F) != len(y.F) {
			return false
		}
		for i := range x.F {
			if !sameValue(x.F[i], y.F[i]) {
				return false
			}
		}
		return true
	case StrV:
		y, ok := b.(StrV)
		return ok && x.Off == y.Off && x.Len == y.Len && sameContent(x.C, y.C)
	case ArrV:
		y, ok := b.(ArrV)
		return ok && x.Len == y.Len && sameContent(x.C, y.C)
	case MapV:
		y, ok := b.(MapV)
		return ok && x.Obj == y.Obj && x.Nil == y.Nil
	case MapContent:
		y, ok := b.(MapContent)
		return ok && x.Present == y.Present && x.Val == y.Val
	case ArrU:
		y, ok := b.(ArrU)
		return ok && x.ID == y.ID
	case ArrS:
		y, ok := b.(ArrS)
		if !ok || len(x.Elems) != len(y.Elems) {
			return false
		}
		for i := range x.Elems {
			if !sameValue(x.Elems[i], y.Elems[i]) {
				return false
			}
		}
		return true
	case nil:
		return b == nil
	case Opaque:
		_, ok := b.(Opaque)
		return ok
	}
	return false
}

func sameContent(a, b Content) bool {
	switch x := a.(type) {
	case CSym:
		y, ok := b.(CSym)
		return ok && x.A == y.A
	case CZero:
		_, ok := b.(CZero)
		return ok
	case CVec:
		y, ok := b.(CVec)
		if !ok || len(x.E) != len(y.E) {
			return false
		}
		for i := range x.E {
			if x.E[i] != y.E[i] {
				return false
			}
		}
		return true
	case *CTab:
		y, ok := b.(*CTab)
		return ok && x == y
	case CStore:
		y, ok := b.(CStore)
		return ok && x.I == y.I && x.V == y.V && sameContent(x.B, y.B)
	case CCopy:
		y, ok := b.(CCopy)
		return ok && x.DOff == y.DOff && x.SOff == y.SOff && x.N == y.N && sameContent(x.B, y.B) && sameContent(x.Src, y.Src)
	case CIte:
		y, ok := b.(CIte)
		return ok && x.C == y.C && sameContent(x.A, y.A) && sameContent(x.B, y.B)
	case CHex:
		y, ok := b.(CHex)
		return ok && x.SOff == y.SOff && sameContent(x.Src, y.Src)
	case CUnhex:
		y, ok := b.(CUnhex)
		return ok && x.SOff == y.SOff && sameContent(x.Src, y.Src)
	}
	return false
}

func mergeVals(conds []*Term, vals []Value) (Value, bool) {
	v := vals[len(vals)-1]
	for i := len(vals) - 2; i >= 0; i-- {
		if sameValue(vals[i], v) {
			continue
		}
		nv, ok := tryIteV(conds[i], vals[i], v)
		if !ok {
			return nil, false
		}
		v = nv
	}
	return v, true
}

// mergeResults joins the states that reached J from the branches of one If.
func (fx *FnExec) mergeResults(orig *Frame, base int, rs []mergeRes, J *ssa.BasicBlock) (*State, *Frame, bool) {
	conds := make([]*Term, len(rs))
	for i, r := range rs {
		conds[i] = And(r.st.PC[base:]...)
	}
	// phi values per result
	var phis []*ssa.Phi
	for _, in := range J.Instrs {
		if p, ok := in.(*ssa.Phi); ok {
			phis = append(phis, p)
		} else {
			break
		}
	}
	st := &State{Heap: map[*Object]Value{}, Ghost: map[string]*Term{}}
	st.PC = append([]*Term(nil), rs[0].st.PC[:base]...)
	st.Assume(Or(conds...))
	// heap
	objs := map[*Object]bool{}
	for _, r := range rs {
		for o := range r.st.Heap {
			objs[o] = true
		}
	}
	for o := range objs {
		var cs []*Term
		var vs []Value
		for i, r := range rs {
			if v, ok := r.st.Heap[o]; ok {
				cs = append(cs, conds[i])
				vs = append(vs, v)
			}
		}
		v, ok := mergeVals(cs, vs)
		if !ok {
			return nil, nil, false
		}
		st.Heap[o] = v
	}
	// ghost
	keys := map[string]bool{}
	for _, r := range rs {
		for k := range r.st.Ghost {
			keys[k] = true
		}
	}
	for k := range keys {
		var vs []Value
		for _, r := range rs {
			g, ok := r.st.Ghost[k]
			if !ok {
				g = BV64(0)
			}
			vs = append(vs, Scalar{g})
		}
		v, ok := mergeVals(conds, vs)
		if !ok {
			return nil, nil, false
		}
		st.Ghost[k] = v.(Scalar).T
	}
	// env
	fr := orig.fork()
	fr.stops = orig.stops
	for key := range rs[0].fr.Env {
		if _, had := orig.Env[key]; had {
			continue
		}
		var vs []Value
		all := true
		for _, r := range rs {
			v, ok := r.fr.Env[key]
			if !ok {
				all = false
				break
			}
			vs = append(vs, v)
		}
		if !all {
			continue
		}
		if it, isIter := vs[0].(*rangeIter); isIter {
			same := true
			for _, v := range vs[1:] {
				if v.(*rangeIter) != it {
					same = false
				}
			}
			if !same {
				return nil, nil, false
			}
			fr.Env[key] = it
			continue
		}
		v, ok := mergeVals(conds, vs)
		if !ok {
			// value not mergeable: only a problem if used later; be conservative
			return nil, nil, false
		}
		fr.Env[key] = v
	}
	// values already in orig.Env may have been rebound (loop phis): merge those as well
	for key, ov := range orig.Env {
		var vs []Value
		changed := false
		for _, r := range rs {
			v, ok := r.fr.Env[key]
			if !ok {
				v = ov
			}
			if !sameValue(v, ov) {
				changed = true
			}
			vs = append(vs, v)
		}
		if !changed {
			continue
		}
		if _, isIter := ov.(*rangeIter); isIter {
			return nil, nil, false
		}
		v, ok := mergeVals(conds, vs)
		if !ok {
			return nil, nil, false
		}
		fr.Env[key] = v
	}
	for _, p := range phis {
		var vs []Value
		for _, r := range rs {
			if r.fr.phiDone == J {
				vs = append(vs, r.fr.Env[p])
				continue
			}
			idx := -1
			for i, pr := range J.Preds {
				if pr == r.prev {
					idx = i
				}
			}
			vs = append(vs, fx.val(r.fr, r.st, p.Edges[idx]))
		}
		v, ok := mergeVals(conds, vs)
		if !ok {
			return nil, nil, false
		}
		fr.Env[p] = v
	}
	for _, r := range rs {
		for b, n := range r.fr.Visits {
			if n > fr.Visits[b] {
				fr.Visits[b] = n
			}
		}
		for h, li := range r.fr.loopInfo {
			fr.loopInfo[h] = li
		}
	}
	return st, fr, true
}
