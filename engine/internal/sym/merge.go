package sym

import (
	"fmt"
	"os"
	"sync"

	"golang.org/x/tools/go/ssa"

	. "verif/engine/internal/smt"
)

// ---------------- post-dominators ----------------

var ipdomCache sync.Map

// ipdoms computes immediate post-dominators of fn's blocks (nil = virtual exit).
func ipdoms(fn *ssa.Function) map[*ssa.BasicBlock]*ssa.BasicBlock {
	if v, ok := ipdomCache.Load(fn); ok {
		return v.(map[*ssa.BasicBlock]*ssa.BasicBlock)
	}
	n := len(fn.Blocks)
	// post-dominator sets as bitsets over block indices, plus virtual exit = index n
	full := make([]bool, n+1)
	for i := range full {
		full[i] = true
	}
	pd := make([][]bool, n+1)
	for i := 0; i < n; i++ {
		pd[i] = append([]bool(nil), full...)
	}
	pd[n] = make([]bool, n+1)
	pd[n][n] = true
	succs := func(b *ssa.BasicBlock) []int {
		if len(b.Succs) == 0 {
			return []int{n}
		}
		var s []int
		for _, x := range b.Succs {
			s = append(s, x.Index)
		}
		return s
	}
	changed := true
	for changed {
		changed = false
		for i := n - 1; i >= 0; i-- {
			b := fn.Blocks[i]
			nw := append([]bool(nil), full...)
			for _, s := range succs(b) {
				for k := range nw {
					nw[k] = nw[k] && pd[s][k]
				}
			}
			nw[i] = true
			for k := range nw {
				if nw[k] != pd[i][k] {
					changed = true
				}
			}
			pd[i] = nw
		}
	}
	res := map[*ssa.BasicBlock]*ssa.BasicBlock{}
	for i := 0; i < n; i++ {
		// strict post-dominators of i; the immediate one is the one post-dominated by all others
		var cands []int
		for k := 0; k <= n; k++ {
			if k != i && pd[i][k] {
				cands = append(cands, k)
			}
		}
		best := -1
		for _, c := range cands {
			ok := true
			for _, d := range cands {
				if d != c && !pd[c][d] {
					ok = false
					break
				}
			}
			if ok {
				best = c
				break
			}
		}
		if best >= 0 && best < n {
			res[fn.Blocks[i]] = fn.Blocks[best]
		}
	}
	ipdomCache.Store(fn, res)
	return res
}

// joinPoint: block where the branches of the If ending block b rejoin. The immediate post-dominator if there
// is one; otherwise (error-return blocks inside a branch destroy post-dominance) the dominator-tree child of b
// with at least two predecessors that both successors can reach (the "if.done" block of a structured if).
func joinPoint(fn *ssa.Function, b *ssa.BasicBlock) *ssa.BasicBlock {
	if j := ipdoms(fn)[b]; j != nil {
		return j
	}
	if len(b.Succs) != 2 {
		return nil
	}
	var cand *ssa.BasicBlock
	for _, c := range b.Dominees() {
		if len(c.Preds) < 2 {
			continue
		}
		if !reaches(b.Succs[0], c, b) || !reaches(b.Succs[1], c, b) {
			continue
		}
		if cand != nil {
			return nil
		}
		cand = c
	}
	return cand
}

// reaches: is `to` reachable from `from` without passing through `avoid`?
func reaches(from, to, avoid *ssa.BasicBlock) bool {
	seen := map[*ssa.BasicBlock]bool{}
	var st []*ssa.BasicBlock
	st = append(st, from)
	for len(st) > 0 {
		n := st[len(st)-1]
		st = st[:len(st)-1]
		if n == to {
			return true
		}
		if seen[n] || n == avoid {
			continue
		}
		seen[n] = true
		st = append(st, n.Succs...)
	}
	return false
}

var debugMerge = os.Getenv("VERIF_DEBUG") != ""

type stopRec struct {
	J       *ssa.BasicBlock
	collect func(st *State, fr *Frame, prev *ssa.BasicBlock)
}

type mergeRes struct {
	st   *State
	fr   *Frame
	prev *ssa.BasicBlock
}

func tryIteV(c *Term, a, b Value) (v Value, ok bool) {
	defer func() {
		if r := recover(); r != nil {
			if _, isU := r.(Unsupported); isU {
				ok = false
				return
			}
			panic(r)
		}
	}()
	return IteV(c, a, b), true
}

func sameValue(a, b Value) bool {
	switch x := a.(type) {
	case Scalar:
		y, ok := b.(Scalar)
		return ok && x.T == y.T
	case ErrV:
		y, ok := b.(ErrV)
		return ok && x.Code == y.Code
	case PtrV:
		y, ok := b.(PtrV)
		return ok && x.Obj == y.Obj && x.Nil == y.Nil && pathEq(x.Path, y.Path)
	case SliceV:
		y, ok := b.(SliceV)
		return ok && x.Obj == y.Obj && x.Nil == y.Nil && x.Off == y.Off && x.Len == y.Len && x.Cap == y.Cap && pathEq(x.Path, y.Path)
	case StructV:
		y, ok := b.(StructV)
		if !ok || len(x.F) != len(y.F) {
			return false
		}
		for i := range x.F {
			if !sameValue(x.F[i], y.F[i]) {
				return false
			}
		}
		return true
	case StrV:
		y, ok := b.(StrV)
		return ok && x.Off == y.Off && x.Len == y.Len && sameContent(x.C, y.C)
	case ArrV:
		y, ok := b.(ArrV)
		return ok && x.Len == y.Len && sameContent(x.C, y.C)
	case MapV:
		y, ok := b.(MapV)
		return ok && x.Obj == y.Obj && x.Nil == y.Nil
	case MapContent:
		y, ok := b.(MapContent)
		return ok && x.Present == y.Present && x.Val == y.Val
	case ArrU:
		y, ok := b.(ArrU)
		return ok && x.ID == y.ID
	case ArrS:
		y, ok := b.(ArrS)
		if !ok || len(x.Elems) != len(y.Elems) {
			return false
		}
		for i := range x.Elems {
			if !sameValue(x.Elems[i], y.Elems[i]) {
				return false
			}
		}
		return true
	case nil:
		return b == nil
	case Opaque:
		_, ok := b.(Opaque)
		return ok
	case IfaceV:
		y, ok := b.(IfaceV)
		return ok && x.Nil == y.Nil && x.Dyn == y.Dyn && sameValue(x.V, y.V)
	case TupleV:
		y, ok := b.(TupleV)
		if !ok || len(x.V) != len(y.V) {
			return false
		}
		for i := range x.V {
			if !sameValue(x.V[i], y.V[i]) {
				return false
			}
		}
		return true
	case FuncV:
		y, ok := b.(FuncV)
		return ok && x.Name == y.Name && x.Fn == y.Fn
	case *rangeIter:
		y, ok := b.(*rangeIter)
		return ok && x == y
	}
	return false
}

func sameContent(a, b Content) bool {
	switch x := a.(type) {
	case CSym:
		y, ok := b.(CSym)
		return ok && x.A == y.A
	case CZero:
		_, ok := b.(CZero)
		return ok
	case CVec:
		y, ok := b.(CVec)
		if !ok || len(x.E) != len(y.E) {
			return false
		}
		for i := range x.E {
			if x.E[i] != y.E[i] {
				return false
			}
		}
		return true
	case *CTab:
		y, ok := b.(*CTab)
		return ok && x == y
	case *CStore:
		y, ok := b.(*CStore)
		if ok && x == y {
			return true
		}
		return ok && x.I == y.I && x.V == y.V && sameContent(x.B, y.B)
	case *CCopy:
		y, ok := b.(*CCopy)
		if ok && x == y {
			return true
		}
		return ok && x.DOff == y.DOff && x.SOff == y.SOff && x.N == y.N && sameContent(x.B, y.B) && sameContent(x.Src, y.Src)
	case *CIte:
		y, ok := b.(*CIte)
		if ok && x == y {
			return true
		}
		return ok && x.C == y.C && sameContent(x.A, y.A) && sameContent(x.B, y.B)
	case CHex:
		y, ok := b.(CHex)
		return ok && x.SOff == y.SOff && sameContent(x.Src, y.Src)
	case CUnhex:
		y, ok := b.(CUnhex)
		return ok && x.SOff == y.SOff && sameContent(x.Src, y.Src)
	}
	return false
}

func mergeVals(conds []*Term, vals []Value) (Value, bool) {
	v := vals[len(vals)-1]
	for i := len(vals) - 2; i >= 0; i-- {
		if sameValue(vals[i], v) {
			continue
		}
		nv, ok := tryIteV(conds[i], vals[i], v)
		if !ok {
			return nil, false
		}
		v = nv
	}
	return v, true
}

// mergeResults joins the states that reached J from the branches of one If.
func (fx *FnExec) mergeResults(orig *Frame, base int, rs []mergeRes, J *ssa.BasicBlock) (*State, *Frame, bool) {
	conds := make([]*Term, len(rs))
	for i, r := range rs {
		conds[i] = And(r.st.PC[base:]...)
	}
	// phi values per result
	var phis []*ssa.Phi
	for _, in := range J.Instrs {
		if p, ok := in.(*ssa.Phi); ok {
			phis = append(phis, p)
		} else {
			break
		}
	}
	st := &State{Heap: map[*Object]Value{}, Ghost: map[string]*Term{}}
	st.PC = append([]*Term(nil), rs[0].st.PC[:base]...)
	st.Assume(Or(conds...))
	st.Quants = mergeQuants(rs, conds)
	// byte slices that point to different freshly allocated arrays in different branches (e.g. a buffer that was
	// appended to in one branch only) are re-based onto one merged array so that the states can be joined
	fx.unifySlices(rs, conds)
	// heap
	objs := map[*Object]bool{}
	for _, r := range rs {
		for o := range r.st.Heap {
			objs[o] = true
		}
	}
	for o := range objs {
		var cs []*Term
		var vs []Value
		for i, r := range rs {
			if v, ok := r.st.Heap[o]; ok {
				cs = append(cs, conds[i])
				vs = append(vs, v)
			}
		}
		v, ok := mergeVals(cs, vs)
		if !ok {
			if debugMerge {
				fmt.Printf("merge fail in %s at b%d: heap object %s (%T)\n", orig.Fn.Name(), J.Index, o.Name, vs[0])
			}
			if debugMerge {
				fmt.Printf("merge fail site 1 in %s\n", orig.Fn.Name())
			}
			return nil, nil, false
		}
		st.Heap[o] = v
	}
	// ghost
	keys := map[string]bool{}
	for _, r := range rs {
		for k := range r.st.Ghost {
			keys[k] = true
		}
	}
	for k := range keys {
		var vs []Value
		for _, r := range rs {
			g, ok := r.st.Ghost[k]
			if !ok {
				g = BV64(0)
			}
			vs = append(vs, Scalar{g})
		}
		v, ok := mergeVals(conds, vs)
		if !ok {
			if debugMerge {
				fmt.Printf("merge fail site 2 in %s\n", orig.Fn.Name())
			}
			return nil, nil, false
		}
		st.Ghost[k] = v.(Scalar).T
	}
	// env
	fr := orig.fork()
	fr.stops = orig.stops
	for key := range rs[0].fr.Env {
		if _, had := orig.Env[key]; had {
			continue
		}
		var vs []Value
		all := true
		for _, r := range rs {
			v, ok := r.fr.Env[key]
			if !ok {
				all = false
				break
			}
			vs = append(vs, v)
		}
		if !all {
			continue
		}
		if it, isIter := vs[0].(*rangeIter); isIter {
			same := true
			for _, v := range vs[1:] {
				if v.(*rangeIter) != it {
					same = false
				}
			}
			if !same {
				if debugMerge {
					fmt.Printf("merge fail site 3 in %s\n", orig.Fn.Name())
				}
				return nil, nil, false
			}
			fr.Env[key] = it
			continue
		}
		v, ok := mergeVals(conds, vs)
		if !ok {
			// value not mergeable: only a problem if used later; be conservative
			if debugMerge {
				fmt.Printf("merge fail in %s at b%d: env %s (%T)\n", orig.Fn.Name(), J.Index, key.Name(), vs[0])
			}
			if debugMerge {
				fmt.Printf("merge fail site 4 in %s\n", orig.Fn.Name())
			}
			return nil, nil, false
		}
		fr.Env[key] = v
	}
	// values already in orig.Env may have been rebound (loop phis): merge those as well
	for key, ov := range orig.Env {
		var vs []Value
		changed := false
		for _, r := range rs {
			v, ok := r.fr.Env[key]
			if !ok {
				v = ov
			}
			if !sameValue(v, ov) {
				changed = true
			}
			vs = append(vs, v)
		}
		if !changed {
			continue
		}
		if _, isIter := ov.(*rangeIter); isIter {
			if debugMerge {
				fmt.Printf("merge fail site 5 in %s\n", orig.Fn.Name())
			}
			return nil, nil, false
		}
		v, ok := mergeVals(conds, vs)
		if !ok {
			if debugMerge {
				fmt.Printf("merge fail site 6 in %s\n", orig.Fn.Name())
			}
			return nil, nil, false
		}
		fr.Env[key] = v
	}
	for _, p := range phis {
		var vs []Value
		for _, r := range rs {
			if r.fr.phiDone == J {
				vs = append(vs, r.fr.Env[p])
				continue
			}
			idx := -1
			for i, pr := range J.Preds {
				if pr == r.prev {
					idx = i
				}
			}
			vs = append(vs, fx.val(r.fr, r.st, p.Edges[idx]))
		}
		v, ok := mergeVals(conds, vs)
		if !ok {
			if debugMerge {
				fmt.Printf("merge fail site 7 in %s\n", orig.Fn.Name())
			}
			return nil, nil, false
		}
		fr.Env[p] = v
	}
	for _, r := range rs {
		for b, n := range r.fr.Visits {
			if n > fr.Visits[b] {
				fr.Visits[b] = n
			}
		}
		for h, li := range r.fr.loopInfo {
			fr.loopInfo[h] = li
		}
	}
	return st, fr, true
}

// unifySlices rewrites, in all results, slice values found at the same heap location that refer to different
// fresh byte arrays, to a common new object whose content is the guarded choice of the originals.
func (fx *FnExec) unifySlices(rs []mergeRes, conds []*Term) {
	if len(rs) != 2 {
		return
	}
	type loc struct {
		o *Object
		p string
	}
	var walk func(v0, v1 Value, path Path, o *Object)
	fix := func(o *Object, path Path, s0, s1 SliceV) {
		if s0.Obj == nil || s1.Obj == nil || s0.Obj == s1.Obj {
			return
		}
		if s0.Obj.Prov != ProvFresh || s1.Obj.Prov != ProvFresh || len(s0.Path) != 0 || len(s1.Path) != 0 {
			return
		}
		a0, ok0 := rs[0].st.Heap[s0.Obj].(ArrV)
		a1, ok1 := rs[1].st.Heap[s1.Obj].(ArrV)
		if !ok0 || !ok1 || a0.EW != a1.EW {
			return
		}
		c := conds[0]
		rebase := func(a ArrV, s SliceV) Content {
			if s.Off.IsConst() && s.Off.Val == 0 {
				return a.C
			}
			return CopyC(CZero{a.EW}, BV64(0), a.C, s.Off, s.Cap)
		}
		no := fx.Cx.NewObj(s0.Obj.Name, s0.Obj.Typ, ProvFresh)
		nv := ArrV{EW: a0.EW, Len: Ite(c, s0.Cap, s1.Cap), C: IteC(c, rebase(a0, s0), rebase(a1, s1))}
		for i, r := range rs {
			s := []SliceV{s0, s1}[i]
			r.st.Heap[no] = nv
			ns := SliceV{Nil: s.Nil, Obj: no, Off: BV64(0), Len: s.Len, Cap: s.Cap}
			r.st.Heap[o] = fx.writePath(r.st.Heap[o], path, ns)
		}
	}
	walk = func(v0, v1 Value, path Path, o *Object) {
		switch x := v0.(type) {
		case SliceV:
			if y, ok := v1.(SliceV); ok {
				fix(o, path, x, y)
			}
		case StructV:
			y, ok := v1.(StructV)
			if !ok || len(x.F) != len(y.F) {
				return
			}
			for i := range x.F {
				walk(x.F[i], y.F[i], append(append(Path(nil), path...), PathEl{Field: i}), o)
			}
		}
	}
	for o, v0 := range rs[0].st.Heap {
		if v1, ok := rs[1].st.Heap[o]; ok {
			walk(v0, v1, nil, o)
		}
	}
}

// mergeStatesVals joins several (state, value) results that extend a common path prefix of length base.
func (fx *FnExec) mergeStatesVals(base int, rs []mergeRes, val func(i int) Value) (*State, Value, bool) {
	conds := make([]*Term, len(rs))
	for i, r := range rs {
		conds[i] = And(r.st.PC[base:]...)
	}
	fx.unifySlices(rs, conds)
	st := &State{Heap: map[*Object]Value{}, Ghost: map[string]*Term{}}
	st.PC = append([]*Term(nil), rs[0].st.PC[:base]...)
	st.Assume(Or(conds...))
	st.Quants = mergeQuants(rs, conds)
	objs := map[*Object]bool{}
	for _, r := range rs {
		for o := range r.st.Heap {
			objs[o] = true
		}
	}
	for o := range objs {
		var cs []*Term
		var vs []Value
		for i, r := range rs {
			if v, ok := r.st.Heap[o]; ok {
				cs = append(cs, conds[i])
				vs = append(vs, v)
			}
		}
		v, ok := mergeVals(cs, vs)
		if !ok {
			return nil, nil, false
		}
		st.Heap[o] = v
	}
	keys := map[string]bool{}
	for _, r := range rs {
		for k := range r.st.Ghost {
			keys[k] = true
		}
	}
	for k := range keys {
		var vs []Value
		for _, r := range rs {
			g, ok := r.st.Ghost[k]
			if !ok {
				g = BV64(0)
			}
			vs = append(vs, Scalar{g})
		}
		v, ok := mergeVals(conds, vs)
		if !ok {
			return nil, nil, false
		}
		st.Ghost[k] = v.(Scalar).T
	}
	var vals []Value
	anyNil := false
	for i := range rs {
		v := val(i)
		if v == nil {
			anyNil = true
		}
		vals = append(vals, v)
	}
	if anyNil {
		for _, v := range vals {
			if v != nil {
				return nil, nil, false
			}
		}
		return st, nil, true
	}
	if tv, isT := vals[0].(TupleV); isT {
		out := TupleV{}
		for j := range tv.V {
			var col []Value
			for _, v := range vals {
				t2, ok := v.(TupleV)
				if !ok || len(t2.V) != len(tv.V) {
					return nil, nil, false
				}
				col = append(col, t2.V[j])
			}
			m, ok := mergeVals(conds, col)
			if !ok {
				return nil, nil, false
			}
			out.V = append(out.V, m)
		}
		return st, out, true
	}
	mv, ok := mergeVals(conds, vals)
	if !ok {
		return nil, nil, false
	}
	return st, mv, true
}

// mergeQuants: quantified hypotheses shared by all branches (pointer identity) are kept as they are; one that holds
// on some branches only is kept under the disjunction of those branches' conditions.
func mergeQuants(rs []mergeRes, conds []*Term) []*QFact {
	var out []*QFact
	seen := map[*QFact]bool{}
	for _, r := range rs {
		for _, q := range r.st.Quants {
			if seen[q] {
				continue
			}
			seen[q] = true
			var gs []*Term
			all := true
			for j, r2 := range rs {
				found := false
				for _, q2 := range r2.st.Quants {
					if q2 == q {
						found = true
						break
					}
				}
				if found {
					gs = append(gs, conds[j])
				} else {
					all = false
				}
			}
			if all {
				out = append(out, q)
				continue
			}
			guard, inner := Or(gs...), q
			out = append(out, &QFact{Inst: func(k *Term) *Term {
				t := inner.Inst(k)
				if t == nil {
					return nil
				}
				return Implies(guard, t)
			}})
		}
	}
	return out
}
