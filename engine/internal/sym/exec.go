package sym

import (
	"fmt"
	"go/constant"
	"go/token"
	"go/types"
	"golang.org/x/tools/go/ssa/ssautil"
	"os"
	"runtime"
	"sort"
	"strings"
	"sync"
	"sync/atomic"

	"golang.org/x/tools/go/ssa"

	. "verif/engine/internal/smt"
)

// Oblig is one proof obligation: under Assumes, Goal must hold.
type Oblig struct {
	Name    string
	Kind    string
	Fn      string
	Assumes []*Term
	Goal    *Term
	Pos     string
	Info    string
	Cover   bool        // must be satisfiable (vacuity guard) instead of valid
	Aux     interface{} // opaque replay helper (e.g. *contract.PostCheck)
	// replay support
	Entry *EntryInfo
}

// Expect is a replay oracle: the result and exit heap (for entry objects) that the contract demands.
type Expect struct {
	HasResult bool
	Result    Value
	Heap      map[*Object]Value
}

// EntryInfo describes how the symbolic entry state of the function under check was built (for replay).
type EntryInfo struct {
	Fn     *ssa.Function
	Params []ParamInfo
}
type ParamInfo struct {
	Name string
	Typ  types.Type
	Val  Value
	Heap map[*Object]Value // entry heap
}

// QFact is a universally quantified hypothesis (over one 64-bit variable) kept in the state; it is used by
// instantiating it at the skolem constants of the goal being proved.
type QFact struct {
	Inst func(k *Term) *Term
}

type State struct {
	Heap   map[*Object]Value
	PC     []*Term
	Ghost  map[string]*Term
	Quants []*QFact
	Dead   bool
	forked bool // set on both states of a Clone while feasibility pruning is on
}

func (s *State) Clone() *State {
	h := make(map[*Object]Value, len(s.Heap))
	for k, v := range s.Heap {
		h[k] = v
	}
	g := make(map[string]*Term, len(s.Ghost))
	for k, v := range s.Ghost {
		g[k] = v
	}
	if Feasible != nil {
		s.forked = true
	}
	return &State{Heap: h, PC: append([]*Term(nil), s.PC...), Ghost: g, Quants: append([]*QFact(nil), s.Quants...), forked: Feasible != nil}
}

// skolemsOf lists the skolem constants (variables named sk.*) of a term.
func skolemsOf(t *Term) []*Term {
	vs, _ := CollectVars([]*Term{t})
	var out []*Term
	for _, v := range vs {
		if strings.HasPrefix(v.Name, "sk.") && v.S.K == KBV && v.S.W == 64 {
			out = append(out, v)
		}
	}
	// index terms of array reads in the goal (e.g. constant indices into a callee's result) are instantiation points
	seenIdx := map[uint64]bool{}
	var walk func(x *Term)
	visited := map[uint64]bool{}
	walk = func(x *Term) {
		if visited[x.ID()] || len(out) > 60 {
			return
		}
		visited[x.ID()] = true
		if x.Op == "select" && x.Args[1].S.K == KBV && x.Args[1].S.W == 64 && !seenIdx[x.Args[1].ID()] && x.Args[1].Size() < 2000 {
			seenIdx[x.Args[1].ID()] = true
			out = append(out, x.Args[1])
		}
		for _, a := range x.Args {
			walk(a)
		}
	}
	walk(t)
	// loop-carried integer variables (havoc'd header phis, named <ssa>@<source name>!n) are instantiation points too
	for _, v := range vs {
		if v.S.K == KBV && v.S.W >= 8 && strings.Contains(v.Name, "@") && !strings.Contains(v.Name, ".") && !strings.Contains(v.Name, "[") {
			if v.S.W == 64 {
				out = append(out, v)
			} else {
				out = append(out, ZExt(64, v))
			}
		}
	}
	return out
}

// instances of the state's quantified hypotheses at the goal's skolems (and at the skolems those introduce, once)
func (s *State) instances(goal *Term) []*Term {
	if len(s.Quants) == 0 {
		return nil
	}
	sk := skolemsOf(goal)
	// array reads that the path condition depends on (e.g. a branch on the last element) are instantiation points too
	have := map[uint64]bool{}
	for _, k := range sk {
		have[k.ID()] = true
	}
	visited := map[uint64]bool{}
	extra := 0
	var walk func(x *Term)
	walk = func(x *Term) {
		if visited[x.ID()] || extra >= 40 {
			return
		}
		visited[x.ID()] = true
		if x.Op == "select" && x.Args[1].S.K == KBV && x.Args[1].S.W == 64 && !have[x.Args[1].ID()] && x.Args[1].Size() < 12 && !x.Args[1].IsConst() {
			have[x.Args[1].ID()] = true
			sk = append(sk, x.Args[1])
			extra++
		}
		for _, a := range x.Args {
			walk(a)
		}
	}
	for i := len(s.PC) - 1; i >= 0; i-- {
		walk(s.PC[i])
	}
	if len(sk) == 0 {
		return nil
	}
	var out []*Term
	for _, q := range s.Quants {
		for _, k := range sk {
			if t := q.Inst(k); t != nil && !t.IsTrue() {
				out = append(out, t)
			}
		}
	}
	return out
}

func (s *State) Assume(t *Term) {
	if t.IsTrue() {
		return
	}
	if t.IsFalse() {
		s.Dead = true
	}
	if t.Op == "and" {
		for _, a := range t.Args {
			s.Assume(a)
		}
		return
	}
	for _, p := range s.PC {
		if p == t {
			return
		}
		if p.Op == "not" && p.Args[0] == t || t.Op == "not" && t.Args[0] == p {
			s.Dead = true
		}
	}
	// the negation of a conjunction whose conjuncts are all already assumed (or a disjunction whose disjuncts are all
	// already refuted) is contradictory
	if t.Op == "not" && t.Args[0].Op == "and" || t.Op == "or" {
		in := map[*Term]bool{}
		for _, p := range s.PC {
			in[p] = true
		}
		all := true
		if t.Op == "or" {
			for _, d := range t.Args {
				if !in[Not(d)] {
					all = false
					break
				}
			}
		} else {
			for _, c := range t.Args[0].Args {
				if !in[c] {
					all = false
					break
				}
			}
		}
		if all {
			s.Dead = true
		}
	}
	s.PC = append(s.PC, t)
	if Feasible != nil && s.forked && !s.Dead {
		// first assumption after a fork: is this side of the fork still possible?
		s.forked = false
		if !Feasible(s.PC) {
			s.Dead = true
		}
	}
}

// Feasible, when set, is asked after every new assumption whether the path condition is still satisfiable; paths it
// refutes are dropped. It is only switched on for harness-style jobs whose concrete shape makes most library forks
// (short read / end of buffer) infeasible; "unknown" must be answered with true.
var Feasible func(pc []*Term) bool

// Intrinsic models a library function. It may fork by calling k several times.
type Intrinsic func(fx *FnExec, fr *Frame, call *ssa.CallCommon, args []Value, st *State, site string, k func(*State, Value))

// Contract is the modular summary of a function.
type Contract interface {
	// Apply is used at call sites of the function: emit `pre` obligations, havoc, assume ensures; continue with k.
	Apply(fx *FnExec, fr *Frame, fn *ssa.Function, args []Value, st *State, site string, k func(*State, Value))
}

type LoopSpec struct {
	// Invariant evaluated at the loop header. Env gives access to SSA values (phis by name).
	// assume=true: the result is assumed (quantified clauses are registered as hypotheses in st); false: goals.
	Invariant func(fx *FnExec, fr *Frame, st *State, entry *State, assume bool) []*NamedTerm
	// Decreases returns a BV64 (signed) measure; nil = none
	Decreases func(fx *FnExec, fr *Frame, st *State) *Term
	Unroll    int
	Bounded   bool
	// OnEntry is called on first arrival at the loop head (before havoc), e.g. to check the state reached by the
	// code before the loop against a specification.
	OnEntry func(fx *FnExec, fr *Frame, st *State)
	// OnBackEdge is called at every back edge with the state assumed at the loop head of this iteration
	// (two-state step relation).
	OnBackEdge func(fx *FnExec, head *State, headFr *Frame, fr *Frame, st *State)
}

type NamedTerm struct {
	Name string
	T    *Term
}

type Ctx struct {
	Prog         *ssa.Program
	Intrinsics   map[string]Intrinsic
	Contracts    map[string]Contract
	Inline       func(caller, callee *ssa.Function) bool
	Loops        func(fn *ssa.Function, loopOrdinal int) *LoopSpec
	mu           sync.Mutex // guards globals, globalHeap, initDone, initFinished, Notes (read from parallel jobs)
	objN         int
	symN         int
	globals      map[*ssa.Global]*Object
	mgOnce       sync.Once
	mutGlobals   []*ssa.Global
	nextErrCode  uint64
	globalHeap   map[*Object]Value
	initDone     map[*ssa.Package]bool
	initFinished map[*ssa.Package]bool
	MaxPaths     int
	MaxVisits    int
	ElemsNonNil  bool // pointers read from slices of unknown content are assumed non-nil (well-formed lists)
	UnwindDrop   bool // bounded harnesses: drop (instead of asserting infeasible) paths that exceed MaxVisits
	NoMerge      bool
	Notes        map[string]bool
}

func NewCtx(prog *ssa.Program) *Ctx {
	return &Ctx{Prog: prog, Intrinsics: map[string]Intrinsic{}, Contracts: map[string]Contract{},
		globals: map[*ssa.Global]*Object{}, globalHeap: map[*Object]Value{}, initDone: map[*ssa.Package]bool{}, initFinished: map[*ssa.Package]bool{},
		MaxPaths: 20000, MaxVisits: 40, Notes: map[string]bool{}}
}

// MutableGlobals returns the package-level variables of the module under check that some function other than a
// package initialiser writes to (store or map update through the variable's address). Their value at the entry of a
// function under verification is unknown: an earlier call may have changed it.
func (cx *Ctx) MutableGlobals() []*ssa.Global {
	cx.mgOnce.Do(func() {
		var root func(v ssa.Value, depth int) *ssa.Global
		root = func(v ssa.Value, depth int) *ssa.Global {
			if depth > 8 {
				return nil
			}
			switch x := v.(type) {
			case *ssa.Global:
				return x
			case *ssa.FieldAddr:
				return root(x.X, depth+1)
			case *ssa.IndexAddr:
				return root(x.X, depth+1)
			case *ssa.ChangeType:
				return root(x.X, depth+1)
			case *ssa.UnOp: // load of a global holding a map / pointer, then written through
				return root(x.X, depth+1)
			}
			return nil
		}
		seen := map[*ssa.Global]bool{}
		for fn := range ssautil.AllFunctions(cx.Prog) {
			if fn.Pkg == nil || !strings.HasPrefix(fn.Pkg.Pkg.Path(), "github.com/free5gc/nas") {
				continue
			}
			if fn.Name() == "init" || strings.HasPrefix(fn.Name(), "init#") {
				continue
			}
			for _, b := range fn.Blocks {
				for _, in := range b.Instrs {
					var g *ssa.Global
					switch x := in.(type) {
					case *ssa.Store:
						g = root(x.Addr, 0)
					case *ssa.MapUpdate:
						g = root(x.Map, 0)
					}
					if g != nil && !seen[g] && g.Pkg != nil && strings.HasPrefix(g.Pkg.Pkg.Path(), "github.com/free5gc/nas") {
						seen[g] = true
						cx.mutGlobals = append(cx.mutGlobals, g)
					}
				}
			}
		}
	})
	return cx.mutGlobals
}

func (cx *Ctx) Note(s string) {
	cx.mu.Lock()
	cx.Notes[s] = true
	cx.mu.Unlock()
}

func (cx *Ctx) NewObj(name string, t types.Type, p Prov) *Object {
	cx.mu.Lock()
	cx.objN++
	o := &Object{ID: cx.objN, Name: name, Typ: t, Prov: p}
	cx.mu.Unlock()
	return o
}

func (cx *Ctx) Fresh(prefix string, s Sort) *Term {
	cx.mu.Lock()
	cx.symN++
	n := cx.symN
	cx.mu.Unlock()
	return Var(fmt.Sprintf("%s!%d", prefix, n), s)
}

type Frame struct {
	Fn     *ssa.Function
	Env    map[ssa.Value]Value
	Visits map[*ssa.BasicBlock]int
	Depth  int
	Prefix string // naming prefix for obligations of inlined callees
	Parent *Frame
	// loop bookkeeping
	loopInfo map[*ssa.BasicBlock]*loopInfo
	stops    []*stopRec
	phiDone  *ssa.BasicBlock
}

func (fr *Frame) fork() *Frame {
	e := make(map[ssa.Value]Value, len(fr.Env))
	for k, v := range fr.Env {
		e[k] = v
	}
	vs := make(map[*ssa.BasicBlock]int, len(fr.Visits))
	for k, v := range fr.Visits {
		vs[k] = v
	}
	le := make(map[*ssa.BasicBlock]*loopInfo, len(fr.loopInfo))
	for k, v := range fr.loopInfo {
		le[k] = v
	}
	return &Frame{Fn: fr.Fn, Env: e, Visits: vs, Depth: fr.Depth, Prefix: fr.Prefix, Parent: fr.Parent, loopInfo: le, stops: fr.stops}
}

// FnExec is the verification run of one function under check.
type FnExec struct {
	Cx           *Ctx
	Fn           *ssa.Function
	Obls         []*Oblig
	Paths        int
	Merges       int
	Returns      int
	Aborted      string // non-empty: reason (path cap, out of subset)
	ordinals     map[ssa.Instruction]map[string]int
	Entry        *EntryInfo
	RetFrame     *Frame
	EntryArgs    []Value
	EntryState   *State
	InitMode     bool
	littleEndian bool // byte order of the binary.Read/Write in progress
	PinLen       map[string]uint64
	Tag          string
	Trusted      map[string]bool
	Inlined      map[string]bool
	Applied      map[string]bool
	// optional hooks
	// OnJoin is called when the branches of a top-level If of the function under check have been joined
	// (ifBlock is the block ending in the If); it may emit obligations and canonicalise the state.
	OnJoin  func(fx *FnExec, fr *Frame, st *State, ifBlock *ssa.BasicBlock)
	OnStore func(fx *FnExec, st *State, obj *Object, path Path, site string)
	// loop write-set discovery mode
	discoverLoop   map[*ssa.BasicBlock]bool
	discoverHeader *ssa.BasicBlock
	mute           bool
	strAlloc       *Term
	// SpecOpaque: during evaluation of a spec function, calls for which it returns true are not unfolded but
	// become applications of uninterpreted functions.
	SpecOpaque func(f *ssa.Function, depth int) bool
	OnOpaque   func(f *ssa.Function, args []Value, res Value)
}

func (cx *Ctx) NewFnExec(fn *ssa.Function) *FnExec {
	return &FnExec{Cx: cx, Fn: fn, ordinals: map[ssa.Instruction]map[string]int{}, Trusted: map[string]bool{}, Inlined: map[string]bool{}, Applied: map[string]bool{}}
}

func FuncName(fn *ssa.Function) string {
	s := fn.String()
	s = strings.ReplaceAll(s, "github.com/free5gc/nas/", "")
	s = strings.ReplaceAll(s, "github.com/free5gc/nas.", "nas.")
	return s
}

func (fx *FnExec) posOf(in ssa.Instruction) string {
	if in == nil {
		return ""
	}
	p := in.Pos()
	if !p.IsValid() {
		return ""
	}
	pp := fx.Cx.Prog.Fset.Position(p)
	return fmt.Sprintf("%s:%d", pp.Filename, pp.Line)
}

// siteName gives a stable, line-independent name for an obligation at an instruction.
func (fx *FnExec) siteName(fr *Frame, in ssa.Instruction, kind string) string {
	fn := fr.Fn
	key := kind
	m, ok := fx.ordinals[in]
	if !ok {
		// compute ordinals for whole function once
		counts := map[string]int{}
		for _, b := range fn.Blocks {
			for _, ins := range b.Instrs {
				mm := map[string]int{}
				for _, kd := range instrKinds(ins) {
					mm[kd] = counts[kd]
					counts[kd]++
				}
				fx.ordinals[ins] = mm
			}
		}
		m = fx.ordinals[in]
	}
	n, ok := m[key]
	if !ok {
		n = 0
	}
	return fmt.Sprintf("%s%s#%s[%d]", fr.Prefix, FuncName(fn), kind, n)
}

func instrKinds(in ssa.Instruction) []string {
	switch x := in.(type) {
	case *ssa.IndexAddr, *ssa.Index:
		return []string{"safety.index", "safety.nil"}
	case *ssa.Lookup:
		return []string{"safety.index"}
	case *ssa.Slice:
		return []string{"safety.slice", "safety.nil"}
	case *ssa.UnOp:
		if x.Op == token.MUL {
			return []string{"safety.nil"}
		}
	case *ssa.Store:
		return []string{"safety.nil", "frame"}
	case *ssa.FieldAddr:
		return []string{"safety.nil"}
	case *ssa.BinOp:
		switch x.Op {
		case token.QUO, token.REM:
			return []string{"safety.div"}
		case token.SHL, token.SHR:
			return []string{"safety.shift"}
		}
	case *ssa.MakeSlice:
		return []string{"safety.make"}
	case *ssa.TypeAssert:
		return []string{"safety.assert"}
	case *ssa.Panic:
		return []string{"safety.panic"}
	case *ssa.Call:
		return []string{"pre", "safety.nil", "safety.lib", "call", "variant"}
	case *ssa.MapUpdate:
		return []string{"safety.nil"}
	case *ssa.Return:
		return []string{"post", "cover"}
	case *ssa.If:
		return []string{"inv", "cover"}
	case *ssa.Jump:
		return []string{"inv"}
	case *ssa.SliceToArrayPointer:
		return []string{"safety.slice"}
	}
	return nil
}

func (fx *FnExec) ObligeAux(st *State, name, kind string, goal *Term, pos, info string, aux interface{}) {
	n := len(fx.Obls)
	fx.Oblige(st, name, kind, goal, pos, info)
	if len(fx.Obls) > n {
		fx.Obls[len(fx.Obls)-1].Aux = aux
	}
}

func (fx *FnExec) tagSuffix() string {
	if fx.Tag == "" {
		return ""
	}
	return "{" + fx.Tag + "}"
}

func (fx *FnExec) Oblige(st *State, name, kind string, goal *Term, pos, info string) {
	if fx.discoverLoop != nil || fx.mute {
		return
	}
	name += fx.tagSuffix()
	if goal.IsTrue() || st.Dead {
		// still record as trivially discharged for counting
		fx.Obls = append(fx.Obls, &Oblig{Name: name, Kind: kind, Fn: FuncName(fx.Fn), Assumes: nil, Goal: True, Pos: pos, Info: info, Entry: fx.Entry})
		return
	}
	fx.Obls = append(fx.Obls, &Oblig{Name: name, Kind: kind, Fn: FuncName(fx.Fn), Assumes: append(append([]*Term(nil), st.PC...), st.instances(goal)...), Goal: goal, Pos: pos, Info: info, Entry: fx.Entry})
}

// check emits a safety obligation and then assumes the goal (execution continues only if no panic).
func (fx *FnExec) check(fr *Frame, st *State, in ssa.Instruction, kind string, goal *Term, info string) {
	fx.Oblige(st, fx.siteName(fr, in, kind), kind, goal, fx.posOf(in), info)
	st.Assume(goal)
}

// ---------------- memory ----------------

func (fx *FnExec) readPath(st *State, v Value, p Path, t types.Type) Value {
	for len(p) > 0 {
		el := p[0]
		p = p[1:]
		if el.Field >= 0 {
			sv, ok := v.(StructV)
			if !ok {
				panic(Unsupported{fmt.Sprintf("field read on %T", v)})
			}
			v = sv.F[el.Field]
			continue
		}
		switch a := v.(type) {
		case ArrV:
			return Scalar{a.C.Elem(el.Index)} // element as raw bit-vector; caller converts bools
		case ArrS:
			if el.Index.IsConst() {
				if el.Index.Val >= uint64(len(a.Elems)) {
					panic(Unsupported{"const index out of range in ArrS"})
				}
				v = a.Elems[el.Index.Val]
			} else {
				var r Value
				for k := len(a.Elems) - 1; k >= 0; k-- {
					ev := fx.readPath(st, a.Elems[k], p, nil)
					if r == nil {
						r = ev
					} else {
						r = IteV(Eq(el.Index, BV64(uint64(k))), ev, r)
					}
				}
				return r
			}
		case ArrU:
			if st == nil {
				panic(Unsupported{"read of unknown-content array without state"})
			}
			v = fx.SymValue(st, a.ET, "elem", 1)
			if pv, ok := v.(PtrV); ok && fx.Cx.ElemsNonNil {
				// job-level assumption: the (unknown) elements of pointer lists are non-nil
				st.Assume(Not(pv.Nil))
			}
		default:
			panic(Unsupported{fmt.Sprintf("index read on %T", v)})
		}
	}
	return v
}

func (fx *FnExec) writePath(v Value, p Path, nv Value) Value {
	if len(p) == 0 {
		return nv
	}
	el := p[0]
	if el.Field >= 0 {
		sv, ok := v.(StructV)
		if !ok {
			panic(Unsupported{fmt.Sprintf("field write on %T", v)})
		}
		nf := append([]Value(nil), sv.F...)
		nf[el.Field] = fx.writePath(sv.F[el.Field], p[1:], nv)
		return StructV{nf}
	}
	switch a := v.(type) {
	case ArrV:
		s, ok := nv.(Scalar)
		if !ok {
			panic(Unsupported{fmt.Sprintf("store %T into scalar array", nv)})
		}
		return ArrV{EW: a.EW, Len: a.Len, C: StoreC(a.C, el.Index, scalarToElem(s, a.EW))}
	case ArrS:
		ne := append([]Value(nil), a.Elems...)
		if el.Index.IsConst() {
			ne[el.Index.Val] = fx.writePath(a.Elems[el.Index.Val], p[1:], nv)
		} else {
			for k := range ne {
				ne[k] = IteV(Eq(el.Index, BV64(uint64(k))), fx.writePath(a.Elems[k], p[1:], nv), a.Elems[k])
			}
		}
		return ArrS{ne}
	case ArrU:
		return fx.Cx.NewArrU(a.ET, a.Len)
	}
	panic(Unsupported{fmt.Sprintf("index write on %T", v)})
}

func (fx *FnExec) heapGet(st *State, o *Object) Value {
	if v, ok := st.Heap[o]; ok {
		return v
	}
	fx.Cx.mu.Lock()
	v, ok := fx.Cx.globalHeap[o]
	fx.Cx.mu.Unlock()
	if ok {
		return v
	}
	panic(Unsupported{"object without heap value: " + o.Name})
}

func (fx *FnExec) Load(st *State, p PtrV, t types.Type) Value {
	v := fx.readPath(st, fx.heapGet(st, p.Obj), p.Path, t)
	if s, ok := v.(Scalar); ok && IsBool(t) && s.T.S.K == KBV {
		return elemToScalar(s.T, t)
	}
	return v
}

func (fx *FnExec) StoreTo(st *State, p PtrV, v Value, site string) {
	if fx.OnStore != nil {
		fx.OnStore(fx, st, p.Obj, p.Path, site)
	}
	st.Heap[p.Obj] = fx.writePath(fx.heapGet(st, p.Obj), p.Path, v)
}

// arrayOf returns the ArrV designated by (obj, path).
func (fx *FnExec) arrayOf(st *State, o *Object, p Path) ArrV {
	v := fx.readPath(st, fx.heapGet(st, o), p, nil)
	a, ok := v.(ArrV)
	if !ok {
		panic(Unsupported{fmt.Sprintf("slice over %T", v)})
	}
	return a
}

// ---------------- values from SSA ----------------

func (fx *FnExec) ConstVal(c *ssa.Const) Value { return fx.constVal(c) }

func (fx *FnExec) constVal(c *ssa.Const) Value {
	t := c.Type()
	if c.Value == nil {
		return fx.Cx.Zero(t)
	}
	switch u := t.Underlying().(type) {
	case *types.Basic:
		if u.Info()&types.IsBoolean != 0 {
			return Scalar{BoolC(constant.BoolVal(c.Value))}
		}
		if u.Info()&types.IsString != 0 {
			s := constant.StringVal(c.Value)
			return StrLit(s)
		}
		if w, ok := IsByteLike(t); ok {
			if v, ok := constant.Int64Val(constant.ToInt(c.Value)); ok {
				return Scalar{BVC(w, uint64(v))}
			}
			v, _ := constant.Uint64Val(constant.ToInt(c.Value))
			return Scalar{BVC(w, v)}
		}
	}
	return Opaque{Name: "const:" + c.String(), T: t}
}

func StrLit(s string) StrV {
	e := make([]*Term, len(s))
	for i := 0; i < len(s); i++ {
		e[i] = BVC(8, uint64(s[i]))
	}
	if len(e) > vecMax {
		v := make([]uint64, len(s))
		for i := range v {
			v[i] = uint64(s[i])
		}
		return StrV{C: &CTab{Name: "lit", V: v, W: 8}, Off: BV64(0), Len: BV64(uint64(len(s)))}
	}
	return StrV{C: CVec{E: e, W: 8}, Off: BV64(0), Len: BV64(uint64(len(s)))}
}

func (fx *FnExec) val(fr *Frame, st *State, v ssa.Value) Value {
	switch x := v.(type) {
	case *ssa.Const:
		return fx.constVal(x)
	case *ssa.Global:
		return PtrV{Nil: False, Obj: fx.Cx.globalObj(x)}
	case *ssa.Function:
		return FuncV{Name: x.String(), Fn: x}
	case *ssa.Builtin:
		return FuncV{Name: "builtin:" + x.Name()}
	}
	if r, ok := fr.Env[v]; ok {
		return r
	}
	panic(Unsupported{fmt.Sprintf("no value for %s (%T) in %s", v.Name(), v, fr.Fn.Name())})
}

// toIdx converts an integer scalar to a 64-bit index according to its Go type.
func toIdx(s Value, t types.Type) *Term {
	sc, ok := s.(Scalar)
	if !ok {
		panic(Unsupported{fmt.Sprintf("index of %T", s)})
	}
	if sc.T.S.W == 64 {
		return sc.T
	}
	if IsSigned(t) {
		return SExt(64, sc.T)
	}
	return ZExt(64, sc.T)
}

// ---------------- globals ----------------

func (cx *Ctx) globalObj(g *ssa.Global) *Object {
	// package initialisers are evaluated once, under initMu; a reader must not see a half-initialised package
	cx.mu.Lock()
	fin := cx.initFinished[g.Pkg]
	o := cx.globals[g]
	cx.mu.Unlock()
	if fin && o != nil {
		return o
	}
	if cx.initOwner() {
		// called from inside the initialiser itself
		cx.mu.Lock()
		o = cx.globals[g]
		cx.mu.Unlock()
		if o != nil {
			return o
		}
	}
	cx.initPackage(g.Pkg)
	cx.mu.Lock()
	defer cx.mu.Unlock()
	return cx.globals[g]
}

var initMu sync.Mutex

var debugForks = os.Getenv("VERIF_FORKS") != ""

// initPackage executes the package initialiser symbolically (concretely, in fact) to obtain global values.
func (cx *Ctx) initPackage(p *ssa.Package) {
	if cx.initOwner() {
		// nested: an initialiser referring to another package's globals
		cx.initPackageLocked(p)
		return
	}
	initMu.Lock()
	atomic.StoreInt64(&initGID, curGID())
	defer func() { atomic.StoreInt64(&initGID, 0); initMu.Unlock() }()
	cx.initPackageLocked(p)
}

var initGID int64

func (cx *Ctx) initOwner() bool {
	g := atomic.LoadInt64(&initGID)
	return g != 0 && g == curGID()
}

func curGID() int64 {
	var buf [64]byte
	n := runtime.Stack(buf[:], false)
	// "goroutine 123 ["
	var id int64
	for _, c := range buf[10:n] {
		if c < '0' || c > '9' {
			break
		}
		id = id*10 + int64(c-'0')
	}
	return id
}

func (cx *Ctx) initPackageLocked(p *ssa.Package) {
	cx.mu.Lock()
	done := cx.initDone[p]
	cx.initDone[p] = true
	cx.mu.Unlock()
	if done {
		return
	}
	defer func() {
		cx.mu.Lock()
		cx.initFinished[p] = true
		cx.mu.Unlock()
	}()
	et := types.Universe.Lookup("error").Type()
	sentinels := map[*Object]Value{}
	defer func() {
		// the initialiser assigns errors.New(...) to the sentinels; keep their distinguishing codes
		cx.mu.Lock()
		for o, v := range sentinels {
			cx.globalHeap[o] = v
		}
		cx.mu.Unlock()
	}()
	for _, m := range p.Members {
		if g, ok := m.(*ssa.Global); ok {
			t := g.Type().(*types.Pointer).Elem()
			o := cx.NewObj("global:"+g.String(), t, ProvGlobal)
			cx.mu.Lock()
			cx.globals[g] = o
			if types.Identical(t, et) {
				// package-level error sentinels: io.EOF and io.ErrUnexpectedEOF have the codes the library models
				// return; every other sentinel gets a code of its own (3 = errors created at run time), so that
				// err == pkg.ErrX is not true of an arbitrary error
				code := uint64(3)
				switch g.String() {
				case "io.EOF":
					code = ErrEOF
				case "io.ErrUnexpectedEOF":
					code = ErrUEOF
				default:
					if cx.nextErrCode < 250 {
						cx.nextErrCode++
						code = 4 + cx.nextErrCode
					}
				}
				cx.globalHeap[o] = ErrV{BVC(8, code)}
				sentinels[o] = ErrV{BVC(8, code)}
			} else {
				cx.globalHeap[o] = cx.Zero(t)
			}
			cx.mu.Unlock()
		}
	}
	initFn := p.Func("init")
	if initFn == nil {
		return
	}
	fx := cx.NewFnExec(initFn)
	fx.InitMode = true
	st := &State{Heap: map[*Object]Value{}, Ghost: map[string]*Term{}}
	func() {
		defer func() {
			if r := recover(); r != nil {
				if _, ok := r.(Unsupported); ok {
					cx.Note(fmt.Sprintf("package init of %s only partially evaluated: %v", p.Pkg.Path(), r))
					return
				}
				panic(r)
			}
		}()
		fx.execFunc(nil, initFn, nil, st, "", func(st2 *State, _ Value) {
			cx.mu.Lock()
			for o, v := range st2.Heap {
				if o.Prov == ProvGlobal {
					cx.globalHeap[o] = constTable(o.Name, v)
				}
			}
			cx.mu.Unlock()
		})
	}()
}

// ---------------- execution ----------------

type abortExec struct{ reason string }

func (fx *FnExec) execFunc(parent *Frame, fn *ssa.Function, args []Value, st *State, prefix string, k func(*State, Value)) {
	if fn.Blocks == nil {
		panic(Unsupported{"no body for " + fn.String()})
	}
	fr := &Frame{Fn: fn, Env: map[ssa.Value]Value{}, Visits: map[*ssa.BasicBlock]int{}, Prefix: prefix, Parent: parent, loopInfo: map[*ssa.BasicBlock]*loopInfo{}}
	if parent != nil {
		for k, v := range parent.loopInfo {
			fr.loopInfo[k] = v
		}
	}
	if parent != nil {
		fr.Depth = parent.Depth + 1
	}
	if fr.Depth > 600 {
		panic(Unsupported{"inline depth exceeded at " + fn.String()})
	}
	for i, p := range fn.Params {
		fr.Env[p] = args[i]
	}
	for i, fv := range fn.FreeVars {
		_ = i
		_ = fv
		panic(Unsupported{"closure free variables in " + fn.String()})
	}
	fx.runBlock(fr, fn.Blocks[0], nil, st, k)
}

func (fx *FnExec) runBlock(fr *Frame, b *ssa.BasicBlock, prev *ssa.BasicBlock, st *State, k func(*State, Value)) {
	if st.Dead {
		return
	}
	if n := len(fr.stops); n > 0 && fr.stops[n-1].J == b {
		fr.stops[n-1].collect(st, fr, prev)
		return
	}
	if fx.discoverLoop != nil && fr.Fn == fx.discoverHeader.Parent() {
		if !fx.discoverLoop[b] || (b == fx.discoverHeader && prev != nil) {
			return
		}
	}
	fr.Visits[b]++
	if fr.Visits[b] > fx.Cx.MaxVisits {
		// unwinding assertion: this path must be infeasible
		if fx.Cx.UnwindDrop {
			return
		}
		fx.Oblige(st, fmt.Sprintf("%s%s#unwind[b%d]", fr.Prefix, FuncName(fr.Fn), b.Index), "unwind", False, "", "loop not fully unrolled within limit")
		return
	}
	// phis
	if fr.phiDone == b {
		fr.phiDone = nil
	} else if prev != nil {
		idx := -1
		for i, p := range b.Preds {
			if p == prev {
				idx = i
			}
		}
		var vals []Value
		var phis []*ssa.Phi
		for _, in := range b.Instrs {
			phi, ok := in.(*ssa.Phi)
			if !ok {
				break
			}
			phis = append(phis, phi)
			vals = append(vals, fx.val(fr, st, phi.Edges[idx]))
		}
		for i, phi := range phis {
			fr.Env[phi] = vals[i]
		}
	}
	if hook := fx.loopHook(fr, b, prev, st, k); hook {
		return
	}
	fx.runFrom(fr, b, 0, st, k)
}

func (fx *FnExec) runFrom(fr *Frame, b *ssa.BasicBlock, start int, st *State, k func(*State, Value)) {
	for i := start; i < len(b.Instrs); i++ {
		if st.Dead {
			return
		}
		in := b.Instrs[i]
		switch x := in.(type) {
		case *ssa.Phi:
			continue
		case *ssa.DebugRef:
			continue
		case *ssa.Call:
			i2 := i
			fx.doCall(fr, x, st, func(st2 *State, r Value, fr2 *Frame) {
				if x.Type() != nil {
					fr2.Env[x] = r
				}
				fx.runFrom(fr2, b, i2+1, st2, k)
			})
			return
		case *ssa.If:
			c := fx.val(fr, st, x.Cond).(Scalar).T
			if c.IsTrue() {
				fx.runBlock(fr, b.Succs[0], b, st, k)
				return
			}
			if c.IsFalse() {
				fx.runBlock(fr, b.Succs[1], b, st, k)
				return
			}
			fx.Paths++
			if debugForks {
				fmt.Fprintf(os.Stderr, "FORK %s %s cond-size=%d\n", FuncName(fr.Fn), fx.posOf(b.Instrs[len(b.Instrs)-1]), c.Size())
			}
			if fx.Paths > fx.Cx.MaxPaths {
				panic(abortExec{"path cap exceeded"})
			}
			J := joinPoint(fr.Fn, b)
			if J != nil && !fx.Cx.NoMerge && !fx.hasLoopSpec(fr.Fn, J) {
				base := len(st.PC)
				var results []mergeRes
				rec := &stopRec{J: J}
				rec.collect = func(s *State, f *Frame, pv *ssa.BasicBlock) {
					results = append(results, mergeRes{s, f, pv})
				}
				conds := []*Term{c, Not(c)}
				for i, succ := range b.Succs {
					si := st.Clone()
					si.Assume(conds[i])
					if si.Dead {
						continue
					}
					fi := fr.fork()
					fi.stops = append(append([]*stopRec(nil), fr.stops...), rec)
					fx.runBlock(fi, succ, b, si, k)
				}
				if len(results) == 0 {
					return
				}
				if len(results) > 1 && len(results) <= 16 {
					if ms, mf, ok := fx.mergeResults(fr, base, results, J); ok {
						fx.Merges++
						if n := len(mf.stops); n > 0 && mf.stops[n-1].J == J {
							// the join point is also the join point of an enclosing If: hand over
							// (phis already evaluated into mf.Env; mark so that runBlock does not redo them)
							mf.phiDone = J
							mf.stops[n-1].collect(ms, mf, results[0].prev)
							return
						}
						if fx.OnJoin != nil && len(mf.stops) == 0 && mf.Parent == nil {
							fx.OnJoin(fx, mf, ms, b)
						}
						mf.Visits[J]++
						if mf.Visits[J] > fx.Cx.MaxVisits {
							if fx.Cx.UnwindDrop {
								return
							}
							fx.Oblige(ms, fmt.Sprintf("%s%s#unwind[b%d]", fr.Prefix, FuncName(fr.Fn), J.Index), "unwind", False, "", "loop not fully unrolled within limit")
							return
						}
						fx.runFrom(mf, J, 0, ms, k)
						return
					}
				}
				for _, r := range results {
					r.fr.stops = fr.stops
					if fx.OnJoin != nil && len(r.fr.stops) == 0 && r.fr.Parent == nil {
						fx.OnJoin(fx, r.fr, r.st, b)
					}
					fx.runBlock(r.fr, J, r.prev, r.st, k)
				}
				return
			}
			st1 := st.Clone()
			st1.Assume(c)
			fr1 := fr.fork()
			st.Assume(Not(c))
			if !st1.Dead {
				fx.runBlock(fr1, b.Succs[0], b, st1, k)
			}
			if !st.Dead {
				fx.runBlock(fr, b.Succs[1], b, st, k)
			}
			return
		case *ssa.Jump:
			fx.runBlock(fr, b.Succs[0], b, st, k)
			return
		case *ssa.Return:
			var r Value
			switch len(x.Results) {
			case 0:
			case 1:
				r = fx.val(fr, st, x.Results[0])
			default:
				t := TupleV{}
				for _, rv := range x.Results {
					t.V = append(t.V, fx.val(fr, st, rv))
				}
				r = t
			}
			if fr.Parent == nil {
				fx.Returns++
				fx.RetFrame = fr
			}
			k(st, r)
			return
		case *ssa.Panic:
			fx.Oblige(st, fx.siteName(fr, in, "safety.panic"), "safety.panic", False, fx.posOf(in), "explicit panic reachable")
			return
		case *ssa.RunDefers:
			continue
		default:
			fx.step(fr, st, in)
		}
	}
}

func (fx *FnExec) step(fr *Frame, st *State, in ssa.Instruction) {
	switch x := in.(type) {
	case *ssa.Alloc:
		t := x.Type().(*types.Pointer).Elem()
		prov := ProvFresh
		o := fx.Cx.NewObj(fmt.Sprintf("%s.%s", fr.Fn.Name(), x.Comment), t, prov)
		st.Heap[o] = fx.Cx.Zero(t)
		fr.Env[x] = PtrV{Nil: False, Obj: o}
		if x.Heap {
			fx.AddAlloc(st, BV64(uint64(sizes.Sizeof(t))))
		}
	case *ssa.BinOp:
		fr.Env[x] = fx.binop(fr, st, x)
	case *ssa.UnOp:
		fr.Env[x] = fx.unop(fr, st, x)
	case *ssa.FieldAddr:
		p := fx.val(fr, st, x.X).(PtrV)
		fx.check(fr, st, in, "safety.nil", Not(p.Nil), "nil pointer dereference (field address)")
		fr.Env[x] = PtrV{Nil: False, Obj: p.Obj, Path: append(append(Path(nil), p.Path...), PathEl{Field: x.Field})}
	case *ssa.Field:
		s := fx.val(fr, st, x.X).(StructV)
		fr.Env[x] = s.F[x.Field]
	case *ssa.IndexAddr:
		idx := toIdx(fx.val(fr, st, x.Index), x.Index.Type())
		switch b := fx.val(fr, st, x.X).(type) {
		case PtrV: // pointer to array
			fx.check(fr, st, in, "safety.nil", Not(b.Nil), "nil array pointer")
			n := uint64(x.X.Type().Underlying().(*types.Pointer).Elem().Underlying().(*types.Array).Len())
			fx.check(fr, st, in, "safety.index", ULt(idx, BV64(n)), fmt.Sprintf("index out of range [0,%d)", n))
			fr.Env[x] = PtrV{Nil: False, Obj: b.Obj, Path: append(append(Path(nil), b.Path...), PathEl{Field: -1, Index: idx})}
		case SliceV:
			fx.check(fr, st, in, "safety.index", ULt(idx, b.Len), "slice index out of range")
			if b.Obj == nil {
				st.Dead = true
				return
			}
			fr.Env[x] = PtrV{Nil: False, Obj: b.Obj, Path: append(append(Path(nil), b.Path...), PathEl{Field: -1, Index: Add(b.Off, idx)})}
		default:
			panic(Unsupported{fmt.Sprintf("IndexAddr on %T", b)})
		}
	case *ssa.Index:
		idx := toIdx(fx.val(fr, st, x.Index), x.Index.Type())
		switch a := fx.val(fr, st, x.X).(type) {
		case ArrV:
			fx.check(fr, st, in, "safety.index", ULt(idx, a.Len), "array index out of range")
			fr.Env[x] = elemToScalar(a.C.Elem(idx), x.Type())
		case ArrS:
			fx.check(fr, st, in, "safety.index", ULt(idx, BV64(uint64(len(a.Elems)))), "array index out of range")
			fr.Env[x] = fx.readPath(st, a, Path{{Field: -1, Index: idx}}, x.Type())
		case StrV:
			fx.check(fr, st, in, "safety.index", ULt(idx, a.Len), "string index out of range")
			fr.Env[x] = Scalar{a.C.Elem(Add(a.Off, idx))}
		default:
			panic(Unsupported{fmt.Sprintf("Index on %T", a)})
		}
	case *ssa.Lookup:
		switch a := fx.val(fr, st, x.X).(type) {
		case StrV:
			idx := toIdx(fx.val(fr, st, x.Index), x.Index.Type())
			fx.check(fr, st, in, "safety.index", ULt(idx, a.Len), "string index out of range")
			fr.Env[x] = Scalar{a.C.Elem(Add(a.Off, idx))}
		case MapV:
			fr.Env[x] = fx.mapLookup(fr, st, x, a)
		default:
			panic(Unsupported{fmt.Sprintf("Lookup on %T", a)})
		}
	case *ssa.Store:
		p := fx.val(fr, st, x.Addr).(PtrV)
		fx.check(fr, st, in, "safety.nil", Not(p.Nil), "nil pointer dereference (store)")
		if st.Dead {
			return
		}
		fx.StoreTo(st, p, fx.val(fr, st, x.Val), fx.siteName(fr, in, "frame"))
	case *ssa.Slice:
		fr.Env[x] = fx.slice(fr, st, x)
	case *ssa.MakeSlice:
		et := x.Type().Underlying().(*types.Slice).Elem()
		ln := toIdx(fx.val(fr, st, x.Len), x.Len.Type())
		cp := toIdx(fx.val(fr, st, x.Cap), x.Cap.Type())
		fx.check(fr, st, in, "safety.make", And(SLe(BV64(0), ln), SLe(ln, cp), ULt(cp, BV64(1<<46))), "makeslice: len out of range")
		fr.Env[x] = fx.newSlice(st, et, ln, cp, "make@"+fr.Fn.Name())
		fx.allocGhost(st, ln, et)
	case *ssa.Convert:
		fr.Env[x] = fx.convert(fr, st, x)
	case *ssa.ChangeType:
		fr.Env[x] = fx.val(fr, st, x.X)
	case *ssa.MakeInterface:
		v := fx.val(fr, st, x.X)
		if IsErrorType(x.Type()) {
			fr.Env[x] = ErrV{BVC(8, 3)}
		} else {
			fr.Env[x] = IfaceV{Nil: False, Dyn: x.X.Type(), V: v}
		}
	case *ssa.ChangeInterface:
		fr.Env[x] = fx.val(fr, st, x.X)
	case *ssa.Extract:
		t := fx.val(fr, st, x.Tuple).(TupleV)
		fr.Env[x] = t.V[x.Index]
	case *ssa.TypeAssert:
		fr.Env[x] = fx.typeAssert(fr, st, x)
	case *ssa.MakeMap:
		fr.Env[x] = fx.makeMap(st, x.Type())
	case *ssa.MapUpdate:
		fx.mapUpdate(fr, st, x)
	case *ssa.MakeClosure:
		fn := x.Fn.(*ssa.Function)
		var b []Value
		for _, bv := range x.Bindings {
			b = append(b, fx.val(fr, st, bv))
		}
		fr.Env[x] = FuncV{Name: fn.String(), Fn: fn, Bind: b}
	case *ssa.Defer:
		panic(Unsupported{"defer"})
	case *ssa.Go:
		panic(Unsupported{"go statement"})
	case *ssa.Range:
		fr.Env[x] = fx.rangeInit(fr, st, x)
	case *ssa.Next:
		fr.Env[x] = fx.rangeNext(fr, st, x)
	case *ssa.SliceToArrayPointer:
		s := fx.val(fr, st, x.X).(SliceV)
		n := uint64(x.Type().(*types.Pointer).Elem().Underlying().(*types.Array).Len())
		fx.check(fr, st, in, "safety.slice", ULe(BV64(n), s.Len), "slice to array pointer: too short")
		if !s.Off.IsConst() || s.Off.Val != 0 {
			panic(Unsupported{"slice-to-array-pointer with offset"})
		}
		fr.Env[x] = PtrV{Nil: False, Obj: s.Obj, Path: s.Path}
	default:
		panic(Unsupported{fmt.Sprintf("instruction %T: %s", in, in)})
	}
}

var sizes = types.SizesFor("gc", "amd64")

// AddAlloc adds n octets to the allocation ghost counter.
func (fx *FnExec) AddAlloc(st *State, n *Term) {
	cur, ok := st.Ghost["alloc"]
	if !ok {
		cur = BV64(0)
	}
	st.Ghost["alloc"] = Add(cur, n)
}

func (fx *FnExec) allocGhost(st *State, n *Term, et types.Type) {
	w, ok := IsByteLike(et)
	if !ok {
		w = 64
	}
	cur, ok := st.Ghost["alloc"]
	if !ok {
		cur = BV64(0)
	}
	st.Ghost["alloc"] = Add(cur, Mul(n, BV64(uint64((w+7)/8))))
}

func (fx *FnExec) newSlice(st *State, et types.Type, ln, cp *Term, name string) SliceV {
	w, ok := IsByteLike(et)
	if !ok {
		if cp.IsConst() && cp.Val <= 64 {
			o := fx.Cx.NewObj(name, types.NewArray(et, int64(cp.Val)), ProvFresh)
			es := make([]Value, cp.Val)
			for i := range es {
				es[i] = fx.Cx.Zero(et)
			}
			st.Heap[o] = ArrS{es}
			return SliceV{Nil: False, Obj: o, Off: BV64(0), Len: ln, Cap: cp}
		}
		o := fx.Cx.NewObj(name, types.NewSlice(et), ProvFresh)
		st.Heap[o] = fx.Cx.NewArrU(et, cp)
		fx.Cx.Note("make of a slice of composite elements with symbolic length: content modelled as unknown instead of zero")
		return SliceV{Nil: False, Obj: o, Off: BV64(0), Len: ln, Cap: cp}
	}
	o := fx.Cx.NewObj(name, types.NewSlice(et), ProvFresh)
	var c Content = CZero{w}
	if cp.IsConst() && cp.Val <= vecMax {
		e := make([]*Term, cp.Val)
		for i := range e {
			e[i] = BVC(w, 0)
		}
		c = CVec{E: e, W: w}
	}
	st.Heap[o] = ArrV{EW: w, Len: cp, C: c}
	return SliceV{Nil: False, Obj: o, Off: BV64(0), Len: ln, Cap: cp}
}

func (fx *FnExec) slice(fr *Frame, st *State, x *ssa.Slice) Value {
	get := func(v ssa.Value, def *Term) *Term {
		if v == nil {
			return def
		}
		return toIdx(fx.val(fr, st, v), v.Type())
	}
	switch b := fx.val(fr, st, x.X).(type) {
	case PtrV:
		fx.check(fr, st, x, "safety.nil", Not(b.Nil), "nil array pointer (slice)")
		at := x.X.Type().Underlying().(*types.Pointer).Elem().Underlying().(*types.Array)
		n := BV64(uint64(at.Len()))
		lo := get(x.Low, BV64(0))
		hi := get(x.High, n)
		mx := get(x.Max, n)
		fx.check(fr, st, x, "safety.slice", And(ULe(lo, hi), ULe(hi, mx), ULe(mx, n)), "slice bounds out of range (array)")
		return SliceV{Nil: False, Obj: b.Obj, Path: b.Path, Off: lo, Len: Sub(hi, lo), Cap: Sub(mx, lo)}
	case SliceV:
		lo := get(x.Low, BV64(0))
		hi := get(x.High, b.Len)
		mx := get(x.Max, b.Cap)
		fx.check(fr, st, x, "safety.slice", And(ULe(lo, hi), ULe(hi, mx), ULe(mx, b.Cap)), "slice bounds out of range")
		return SliceV{Nil: b.Nil, Obj: b.Obj, Path: b.Path, Off: Add(b.Off, lo), Len: Sub(hi, lo), Cap: Sub(mx, lo)}
	case StrV:
		lo := get(x.Low, BV64(0))
		hi := get(x.High, b.Len)
		fx.check(fr, st, x, "safety.slice", And(ULe(lo, hi), ULe(hi, b.Len)), "string slice bounds out of range")
		return StrV{C: b.C, Off: Add(b.Off, lo), Len: Sub(hi, lo)}
	default:
		panic(Unsupported{fmt.Sprintf("Slice on %T", b)})
	}
}

func (fx *FnExec) binop(fr *Frame, st *State, x *ssa.BinOp) Value {
	a := fx.val(fr, st, x.X)
	b := fx.val(fr, st, x.Y)
	return fx.BinOpV(fr, st, x, x.Op, a, b, x.X.Type(), x.Y.Type())
}

func (fx *FnExec) BinOpV(fr *Frame, st *State, in ssa.Instruction, op token.Token, a, b Value, ta, tb types.Type) Value {
	switch av := a.(type) {
	case Scalar:
		bv, ok := b.(Scalar)
		if !ok {
			panic(Unsupported{fmt.Sprintf("binop %s on scalar and %T", op, b)})
		}
		if av.T.S.K == KBool {
			switch op {
			case token.EQL:
				return Scalar{Eq(av.T, bv.T)}
			case token.NEQ:
				return Scalar{Ne(av.T, bv.T)}
			case token.AND, token.LAND:
				return Scalar{And(av.T, bv.T)}
			case token.OR, token.LOR:
				return Scalar{Or(av.T, bv.T)}
			}
			panic(Unsupported{"bool binop " + op.String()})
		}
		signed := IsSigned(ta)
		x, y := av.T, bv.T
		switch op {
		case token.ADD:
			return Scalar{Add(x, y)}
		case token.SUB:
			return Scalar{Sub(x, y)}
		case token.MUL:
			return Scalar{Mul(x, y)}
		case token.AND:
			return Scalar{BAnd(x, y)}
		case token.OR:
			return Scalar{BOr(x, y)}
		case token.XOR:
			return Scalar{BXor(x, y)}
		case token.AND_NOT:
			return Scalar{BAnd(x, BNot(y))}
		case token.QUO, token.REM:
			if in != nil {
				fx.check(fr, st, in, "safety.div", Ne(y, BVC(y.S.W, 0)), "integer divide by zero")
			}
			if signed {
				if op == token.QUO {
					return Scalar{SDiv(x, y)}
				}
				if !y.IsConst() && x.S.W == 64 && st != nil {
					// symbolic divisor: use the remainder lemma (obligation lemma.srem64 of the property that needs it)
					// on a fresh result instead of the division circuit
					r := fx.Cx.Fresh("rem", BV(64))
					z := BVC(64, 0)
					st.Assume(Implies(And(SLe(z, x), SLt(z, y)), And(SLe(z, r), SLt(r, y), Implies(SLt(x, y), Eq(r, x)), Implies(And(SLe(y, x), SLt(Sub(x, y), y)), Eq(r, Sub(x, y))))))
					st.Assume(Implies(And(SLt(x, z), SLt(z, y)), And(SLt(Neg(y), r), SLe(r, z))))
					fx.Cx.Note("x % y with symbolic 64-bit divisor: result abstracted by the remainder lemma (0<=x,0<y: 0<=r<y, r==x if x<y, r==x-y if y<=x<2y; x<0<y: -y<r<=0), which is proved separately as obligation lemma.srem64")
					return Scalar{r}
				}
				return Scalar{SRem(x, y)}
			}
			if op == token.QUO {
				return Scalar{UDiv(x, y)}
			}
			return Scalar{URem(x, y)}
		case token.SHL, token.SHR:
			// shift count: any integer type; negative signed count panics
			w := x.S.W
			if IsSigned(tb) {
				if in != nil {
					fx.check(fr, st, in, "safety.shift", SLe(BVC(y.S.W, 0), y), "negative shift amount")
				}
			}
			var cnt *Term
			var big *Term // count >= w
			if y.S.W > w {
				big = ULe(BVC(y.S.W, uint64(w)), y)
				cnt = Extract(w-1, 0, y)
			} else {
				cnt = ZExt(w, y)
				big = ULe(BVC(w, uint64(w)), cnt)
				if y.S.W < 63 && (uint64(1)<<uint(y.S.W)) <= uint64(w) {
					big = False
				}
			}
			if op == token.SHL {
				return Scalar{Ite(big, BVC(w, 0), Shl(x, cnt))}
			}
			if signed {
				return Scalar{Ite(big, AShr(x, BVC(w, uint64(w-1))), AShr(x, cnt))}
			}
			return Scalar{Ite(big, BVC(w, 0), LShr(x, cnt))}
		case token.EQL:
			return Scalar{Eq(x, y)}
		case token.NEQ:
			return Scalar{Ne(x, y)}
		case token.LSS:
			if signed {
				return Scalar{SLt(x, y)}
			}
			return Scalar{ULt(x, y)}
		case token.LEQ:
			if signed {
				return Scalar{SLe(x, y)}
			}
			return Scalar{ULe(x, y)}
		case token.GTR:
			if signed {
				return Scalar{SLt(y, x)}
			}
			return Scalar{ULt(y, x)}
		case token.GEQ:
			if signed {
				return Scalar{SLe(y, x)}
			}
			return Scalar{ULe(y, x)}
		}
	case ErrV:
		bv := b.(ErrV)
		switch op {
		case token.EQL:
			return Scalar{Eq(av.Code, bv.Code)}
		case token.NEQ:
			return Scalar{Ne(av.Code, bv.Code)}
		}
	case PtrV:
		bv := b.(PtrV)
		var eq *Term
		switch {
		case bv.Obj == nil:
			eq = av.Nil
		case av.Obj == nil:
			eq = bv.Nil
		case av.Obj == bv.Obj && pathEq(av.Path, bv.Path):
			eq = Or(And(av.Nil, bv.Nil), And(Not(av.Nil), Not(bv.Nil)))
		default:
			eq = And(av.Nil, bv.Nil)
		}
		if op == token.EQL {
			return Scalar{eq}
		}
		return Scalar{Not(eq)}
	case SliceV:
		// only comparison with nil is legal
		if op == token.EQL {
			return Scalar{av.Nil}
		}
		return Scalar{Not(av.Nil)}
	case MapV:
		if op == token.EQL {
			return Scalar{av.Nil}
		}
		return Scalar{Not(av.Nil)}
	case IfaceV:
		bv, _ := b.(IfaceV)
		if bv.Nil != nil && bv.Nil.IsTrue() {
			if op == token.EQL {
				return Scalar{av.Nil}
			}
			return Scalar{Not(av.Nil)}
		}
	case FuncV:
		if op == token.EQL {
			return Scalar{BoolC(av.Fn == nil && av.Name == "")}
		}
		return Scalar{BoolC(!(av.Fn == nil && av.Name == ""))}
	case StrV:
		bv := b.(StrV)
		switch op {
		case token.ADD:
			return fx.strConcat(av, bv)
		case token.EQL, token.NEQ:
			eq := fx.strEq(av, bv)
			if op == token.NEQ {
				eq = Not(eq)
			}
			return Scalar{eq}
		}
	}
	panic(Unsupported{fmt.Sprintf("binop %s on %T", op, a)})
}

func (fx *FnExec) strConcat(a, b StrV) StrV {
	if a.Len.IsConst() && a.Len.Val == 0 {
		return b
	}
	if b.Len.IsConst() && b.Len.Val == 0 {
		return a
	}
	var base Content = CZero{8}
	if a.Len.IsConst() && b.Len.IsConst() && a.Len.Val+b.Len.Val <= vecMax {
		e := make([]*Term, a.Len.Val+b.Len.Val)
		for i := range e {
			e[i] = BVC(8, 0)
		}
		base = CVec{E: e, W: 8}
	}
	c := CopyC(base, BV64(0), a.C, a.Off, a.Len)
	c = CopyC(c, a.Len, b.C, b.Off, b.Len)
	fx.strAlloc = Add(fx.strAllocOr0(), Add(a.Len, b.Len))
	return StrV{C: c, Off: BV64(0), Len: Add(a.Len, b.Len)}
}

func (fx *FnExec) strAllocOr0() *Term {
	if fx.strAlloc == nil {
		return BV64(0)
	}
	return fx.strAlloc
}

func (fx *FnExec) strEq(a, b StrV) *Term {
	if b.Len.IsConst() {
		a, b = b, a
	}
	if a.Len.IsConst() && a.Len.Val <= 64 {
		cs := []*Term{Eq(b.Len, a.Len)}
		for i := uint64(0); i < a.Len.Val; i++ {
			cs = append(cs, Eq(a.C.Elem(Add(a.Off, BV64(i))), b.C.Elem(Add(b.Off, BV64(i)))))
		}
		return And(cs...)
	}
	if a.Max > 0 && a.Max <= 16 && b.Max > 0 && b.Max <= 16 {
		m := a.Max
		if b.Max < m {
			m = b.Max
		}
		cs := []*Term{Eq(a.Len, b.Len)}
		for i := uint64(0); i < m; i++ {
			cs = append(cs, Implies(ULt(BV64(i), a.Len), Eq(a.C.Elem(Add(a.Off, BV64(i))), b.C.Elem(Add(b.Off, BV64(i))))))
		}
		return And(cs...)
	}
	// unknown-length comparison: abstract by an uninterpreted predicate that at least implies equal length
	fx.Cx.Note("string equality with two symbolic lengths abstracted (fresh boolean implying equal lengths)")
	e := fx.Cx.Fresh("streq", Bool)
	return And(e, Eq(a.Len, b.Len))
}

func (fx *FnExec) unop(fr *Frame, st *State, x *ssa.UnOp) Value {
	v := fx.val(fr, st, x.X)
	switch x.Op {
	case token.MUL:
		p, ok := v.(PtrV)
		if !ok {
			panic(Unsupported{fmt.Sprintf("deref of %T", v)})
		}
		fx.check(fr, st, x, "safety.nil", Not(p.Nil), "nil pointer dereference (load)")
		if st.Dead || p.Obj == nil {
			st.Dead = true
			return fx.Cx.Zero(x.Type())
		}
		return fx.Load(st, p, x.Type())
	case token.NOT:
		return Scalar{Not(v.(Scalar).T)}
	case token.SUB:
		return Scalar{Neg(v.(Scalar).T)}
	case token.XOR:
		return Scalar{BNot(v.(Scalar).T)}
	}
	panic(Unsupported{"unop " + x.Op.String()})
}

func (fx *FnExec) convert(fr *Frame, st *State, x *ssa.Convert) Value {
	v := fx.val(fr, st, x.X)
	from, to := x.X.Type(), x.Type()
	return fx.ConvertV(st, v, from, to)
}

func (fx *FnExec) ConvertV(st *State, v Value, from, to types.Type) Value {
	if wt, ok := IsByteLike(to); ok && !IsBool(to) {
		if s, ok := v.(Scalar); ok && s.T.S.K == KBV {
			if IsSigned(from) {
				return Scalar{SExt(wt, s.T)}
			}
			return Scalar{ZExt(wt, s.T)}
		}
	}
	if IsString(to) {
		switch s := v.(type) {
		case SliceV: // string([]byte)
			if s.Obj == nil {
				return StrV{C: CZero{8}, Off: BV64(0), Len: BV64(0)}
			}
			a := fx.arrayOf(st, s.Obj, s.Path)
			return StrV{C: a.C, Off: s.Off, Len: s.Len}
		case Scalar: // string(rune/byte)
			if s.T.S.K == KBV {
				fx.Cx.Note("string(integer) modelled for values < 0x80 only (one octet); larger values abstracted as 2..4 octets of unknown content")
				w := s.T.S.W
				small := ULt(s.T, BVC(w, 0x80))
				b0 := Extract(7, 0, s.T)
				un := fx.Cx.Fresh("utf8", Arr(64, 8))
				ln := fx.Cx.Fresh("utf8len", BV(64))
				st.Assume(Implies(Not(small), And(ULe(BV64(2), ln), ULe(ln, BV64(4)))))
				st.Assume(Implies(small, Eq(ln, BV64(1))))
				// the first octet of a multi-octet UTF-8 sequence (also of U+FFFD for invalid values) is a lead byte
				st.Assume(Implies(Not(small), ULe(BVC(8, 0xC2), Select(un, BV64(0)))))
				return StrV{C: IteC(small, CVec{E: []*Term{b0}, W: 8}, CSym{un}), Off: BV64(0), Len: ln}
			}
		case StrV:
			return s
		}
	}
	if sl, ok := to.Underlying().(*types.Slice); ok {
		if s, ok := v.(StrV); ok { // []byte(string)
			if w, ok := IsByteLike(sl.Elem()); ok && w == 8 {
				o := fx.Cx.NewObj("bytes(string)", to, ProvFresh)
				st.Heap[o] = ArrV{EW: 8, Len: s.Len, C: CopyC(CZero{8}, BV64(0), s.C, s.Off, s.Len)}
				fx.allocGhost(st, s.Len, sl.Elem())
				return SliceV{Nil: False, Obj: o, Off: BV64(0), Len: s.Len, Cap: s.Len}
			}
		}
		if s, ok := v.(SliceV); ok {
			return s
		}
	}
	if _, ok := v.(Opaque); ok {
		return Opaque{Name: "convert", T: to}
	}
	if b, ok := to.Underlying().(*types.Basic); ok && b.Info()&types.IsFloat != 0 {
		return Opaque{Name: "float", T: to}
	}
	panic(Unsupported{fmt.Sprintf("convert %s -> %s (%T)", from, to, v)})
}

func (fx *FnExec) typeAssert(fr *Frame, st *State, x *ssa.TypeAssert) Value {
	v := fx.val(fr, st, x.X)
	switch iv := v.(type) {
	case IfaceV:
		if iv.Dyn == nil {
			if x.CommaOk {
				return TupleV{[]Value{fx.Cx.Zero(x.AssertedType), Scalar{False}}}
			}
			fx.check(fr, st, x, "safety.assert", False, "type assertion on nil interface")
			return fx.Cx.Zero(x.AssertedType)
		}
		ok := types.Identical(iv.Dyn, x.AssertedType)
		if !ok {
			if _, isI := x.AssertedType.Underlying().(*types.Interface); isI {
				ok = types.Implements(iv.Dyn, x.AssertedType.Underlying().(*types.Interface))
				if ok {
					if x.CommaOk {
						return TupleV{[]Value{iv, Scalar{Not(iv.Nil)}}}
					}
					return iv
				}
			}
		}
		okT := And(BoolC(ok), Not(iv.Nil))
		res := fx.Cx.Zero(x.AssertedType)
		if ok {
			res = iv.V
		}
		if x.CommaOk {
			return TupleV{[]Value{res, Scalar{okT}}}
		}
		fx.check(fr, st, x, "safety.assert", okT, "type assertion failed")
		return res
	case ErrV:
		if x.CommaOk {
			fx.Cx.Note("type assertion on error value: result abstracted")
			return TupleV{[]Value{Opaque{Name: "errassert", T: x.AssertedType}, Scalar{fx.Cx.Fresh("assertok", Bool)}}}
		}
	}
	panic(Unsupported{fmt.Sprintf("type assert on %T", v)})
}

// ---------------- calls ----------------

func (fx *FnExec) doCall(fr *Frame, c *ssa.Call, st *State, k func(*State, Value, *Frame)) {
	cc := &c.Call
	site := fx.siteName(fr, c, "call")
	cont := func(st2 *State, r Value) { k(st2, r, fr) }
	// NOTE: frames are forked inside intrinsics/contracts only through st; Env of fr is shared across the
	// continuations called sequentially, which is safe because each continuation only adds values defined later
	// on its own path and forks copy the Env at branches.
	multi := func(st2 *State, r Value) {
		// used by callees that may call the continuation several times: fork the frame for each
		k(st2, r, fr.fork())
	}
	if cc.IsInvoke() {
		fx.invoke(fr, c, st, site, multi)
		return
	}
	var args []Value
	for _, a := range cc.Args {
		args = append(args, fx.val(fr, st, a))
	}
	switch f := cc.Value.(type) {
	case *ssa.Builtin:
		r := fx.builtin(fr, st, c, f.Name(), args)
		cont(st, r)
		return
	case *ssa.Function:
		fx.callFunc(fr, c, f, args, st, site, multi)
		return
	case *ssa.MakeClosure:
		fn := f.Fn.(*ssa.Function)
		if len(fn.FreeVars) == 0 {
			fx.callFunc(fr, c, fn, args, st, site, multi)
			return
		}
	}
	if fx.InitMode {
		cont(st, Opaque{Name: "call", T: nil})
		return
	}
	panic(Unsupported{"dynamic call: " + c.String()})
}

func (fx *FnExec) callFunc(fr *Frame, c *ssa.Call, f *ssa.Function, args []Value, st *State, site string, k func(*State, Value)) {
	name := f.String()
	if in, ok := fx.Cx.Intrinsics[name]; ok {
		fx.Trusted[name] = true
		in(fx, fr, &c.Call, args, st, site, k)
		return
	}
	if fx.InitMode {
		if f.Pkg != nil && f.Pkg == fr.Fn.Pkg && f.Blocks != nil && strings.HasPrefix(f.Name(), "init") {
			fx.execFunc(fr, f, args, st, "", k)
			return
		}
		var r Value
		if res := f.Signature.Results(); res.Len() == 1 {
			r = safeZero(fx.Cx, res.At(0).Type())
		} else if res.Len() > 1 {
			t := TupleV{}
			for i := 0; i < res.Len(); i++ {
				t.V = append(t.V, safeZero(fx.Cx, res.At(i).Type()))
			}
			r = t
		}
		k(st, r)
		return
	}
	// method call on possibly nil receiver: Go allows it; the body decides.
	if ct, ok := fx.Cx.Contracts[name]; ok && f != fx.Fn {
		fx.Applied[name] = true
		ct.Apply(fx, fr, f, args, st, site, k)
		return
	}
	if ct, ok := fx.Cx.Contracts[name]; ok && f == fx.Fn {
		// recursion: use own contract
		fx.Applied[name] = true
		ct.Apply(fx, fr, f, args, st, site, k)
		return
	}
	if fx.SpecOpaque != nil && fx.SpecOpaque(f, fr.Depth+1) {
		res := fx.OpaqueApplySt(st, f, args)
		if fx.OnOpaque != nil {
			fx.OnOpaque(f, args, res)
		}
		k(st, res)
		return
	}
	if f.Blocks != nil && (fx.SpecOpaque != nil || fx.Cx.Inline == nil || fx.Cx.Inline(fx.Fn, f)) {
		fx.Inlined[name] = true
		// collect the callee's return paths and join them, so that a callee with several returns does not
		// multiply the caller's paths
		base := len(st.PC)
		type retT struct {
			st *State
			v  Value
		}
		var rets []retT
		fx.execFunc(fr, f, args, st, fr.Prefix, func(s2 *State, r Value) {
			rets = append(rets, retT{s2, r})
		})
		if len(rets) > 1 && len(rets) <= 16 && !fx.Cx.NoMerge {
			var rs []mergeRes
			ok := true
			for _, r := range rets {
				if len(r.st.PC) < base {
					ok = false
				}
				rs = append(rs, mergeRes{st: r.st})
			}
			if ok {
				if ms, mv, ok2 := fx.mergeStatesVals(base, rs, func(i int) Value { return rets[i].v }); ok2 {
					k(ms, mv)
					return
				}
			}
		}
		for _, r := range rets {
			k(r.st, r.v)
		}
		return
	}
	panic(Unsupported{"call to function without contract or model: " + name})
}

func safeZero(cx *Ctx, t types.Type) (v Value) {
	defer func() {
		if r := recover(); r != nil {
			v = Opaque{Name: "zero", T: t}
		}
	}()
	return cx.Zero(t)
}

func (fx *FnExec) invoke(fr *Frame, c *ssa.Call, st *State, site string, k func(*State, Value)) {
	cc := &c.Call
	recv := fx.val(fr, st, cc.Value)
	var args []Value
	for _, a := range cc.Args {
		args = append(args, fx.val(fr, st, a))
	}
	switch rv := recv.(type) {
	case ErrV:
		if cc.Method.Name() == "Error" {
			fx.check(fr, st, c, "safety.nil", Ne(rv.Code, BVC(8, 0)), "Error() on nil error")
			k(st, fx.freshString(st, "errtext"))
			return
		}
	case IfaceV:
		fx.check(fr, st, c, "safety.nil", Not(rv.Nil), "method call on nil interface")
		if st.Dead {
			return
		}
		if rv.Dyn != nil {
			fn := fx.Cx.Prog.LookupMethod(rv.Dyn, cc.Method.Pkg(), cc.Method.Name())
			if fn != nil {
				fx.callFunc(fr, c, fn, append([]Value{rv.V}, args...), st, site, k)
				return
			}
		}
	}
	if in, ok := fx.Cx.Intrinsics["invoke:"+cc.Method.FullName()]; ok {
		in(fx, fr, cc, append([]Value{recv}, args...), st, site, k)
		return
	}
	panic(Unsupported{fmt.Sprintf("interface call %s on %T", cc.Method.FullName(), recv)})
}

func (fx *FnExec) freshString(st *State, name string) StrV {
	a := fx.Cx.Fresh(name, Arr(64, 8))
	l := fx.Cx.Fresh(name+".len", BV(64))
	st.Assume(ULt(l, BV64(1<<40)))
	return StrV{C: CSym{a}, Off: BV64(0), Len: l}
}

func (fx *FnExec) builtin(fr *Frame, st *State, c *ssa.Call, name string, args []Value) Value {
	switch name {
	case "len":
		switch a := args[0].(type) {
		case SliceV:
			return Scalar{a.Len}
		case StrV:
			return Scalar{a.Len}
		case ArrV:
			return Scalar{a.Len}
		case ArrS:
			return Scalar{BV64(uint64(len(a.Elems)))}
		case ArrU:
			return Scalar{a.Len}
		case MapV:
			panic(Unsupported{"len(map)"})
		}
	case "cap":
		if a, ok := args[0].(SliceV); ok {
			return Scalar{a.Cap}
		}
	case "copy":
		dst := args[0].(SliceV)
		var sc Content
		var soff, slen *Term
		switch s := args[1].(type) {
		case SliceV:
			if s.Obj == nil {
				return Scalar{BV64(0)}
			}
			sa := fx.arrayOf(st, s.Obj, s.Path)
			sc, soff, slen = sa.C, s.Off, s.Len
		case StrV:
			sc, soff, slen = s.C, s.Off, s.Len
		default:
			panic(Unsupported{"copy source"})
		}
		n := Ite(ULt(dst.Len, slen), dst.Len, slen)
		if dst.Obj == nil {
			return Scalar{BV64(0)}
		}
		da := fx.arrayOf(st, dst.Obj, dst.Path)
		nc := CopyC(da.C, dst.Off, sc, soff, n)
		if dst.Off.IsConst() && dst.Off.Val == 0 && soff.IsConst() && soff.Val == 0 && n == da.Len && len(dst.Path) == 0 {
			// the whole backing array is overwritten from the start of the source: same content (elements beyond
			// the array length are never read)
			nc = sc
		}
		if fx.OnStore != nil {
			fx.OnStore(fx, st, dst.Obj, dst.Path, fx.siteName(fr, c, "call"))
		}
		st.Heap[dst.Obj] = fx.writePath(fx.heapGet(st, dst.Obj), dst.Path, ArrV{EW: da.EW, Len: da.Len, C: nc})
		return Scalar{n}
	case "append":
		s := args[0].(SliceV)
		et := c.Type().Underlying().(*types.Slice).Elem()
		w, okb := IsByteLike(et)
		var tc Content
		var toff, tlen *Term
		switch t := args[1].(type) {
		case SliceV:
			if !okb {
				return fx.appendComposite(st, s, t, et)
			}
			if t.Obj == nil {
				tc, toff, tlen = CZero{w}, BV64(0), BV64(0)
			} else {
				ta := fx.arrayOf(st, t.Obj, t.Path)
				tc, toff, tlen = ta.C, t.Off, t.Len
			}
		case StrV:
			tc, toff, tlen = t.C, t.Off, t.Len
		default:
			panic(Unsupported{fmt.Sprintf("append of %T", args[1])})
		}
		var base Content = CZero{w}
		nl := Add(s.Len, tlen)
		if nl.IsConst() && nl.Val <= vecMax {
			e := make([]*Term, nl.Val)
			for i := range e {
				e[i] = BVC(w, 0)
			}
			base = CVec{E: e, W: w}
		}
		if s.Obj != nil {
			sa := fx.arrayOf(st, s.Obj, s.Path)
			base = CopyC(base, BV64(0), sa.C, s.Off, s.Len)
		}
		base = CopyC(base, s.Len, tc, toff, tlen)
		o := fx.Cx.NewObj("append@"+fr.Fn.Name(), c.Type(), ProvFresh)
		st.Heap[o] = ArrV{EW: w, Len: nl, C: base}
		fx.Cx.Note("append modelled as always allocating a fresh backing array (sound for values; aliasing of old and new slice not modelled)")
		fx.allocGhost(st, nl, et)
		return SliceV{Nil: False, Obj: o, Off: BV64(0), Len: nl, Cap: nl}
	case "print", "println":
		return nil
	case "delete":
		fx.mapDelete(fr, st, args[0].(MapV), args[1])
		return nil
	case "min", "max":
		a, b := args[0].(Scalar).T, args[1].(Scalar).T
		lt := ULt(a, b)
		if IsSigned(c.Call.Args[0].Type()) {
			lt = SLt(a, b)
		}
		if name == "min" {
			return Scalar{Ite(lt, a, b)}
		}
		return Scalar{Ite(lt, b, a)}
	}
	panic(Unsupported{"builtin " + name})
}

func (fx *FnExec) appendComposite(st *State, s, t SliceV, et types.Type) Value {
	isU := func(x SliceV) bool {
		if x.Obj == nil {
			return false
		}
		_, u := fx.readPath(st, fx.heapGet(st, x.Obj), x.Path, nil).(ArrU)
		return u
	}
	if !s.Len.IsConst() || !t.Len.IsConst() || !s.Off.IsConst() || !t.Off.IsConst() || isU(s) || isU(t) || s.Len.Val+t.Len.Val > 64 {
		nl := Add(s.Len, t.Len)
		o := fx.Cx.NewObj("append", types.NewSlice(et), ProvFresh)
		st.Heap[o] = fx.Cx.NewArrU(et, nl)
		return SliceV{Nil: False, Obj: o, Off: BV64(0), Len: nl, Cap: nl}
	}
	var elems []Value
	if s.Obj != nil {
		a := fx.readPath(st, fx.heapGet(st, s.Obj), s.Path, nil).(ArrS)
		elems = append(elems, a.Elems[s.Off.Val:s.Off.Val+s.Len.Val]...)
	}
	if t.Obj != nil {
		a := fx.readPath(st, fx.heapGet(st, t.Obj), t.Path, nil).(ArrS)
		elems = append(elems, a.Elems[t.Off.Val:t.Off.Val+t.Len.Val]...)
	}
	o := fx.Cx.NewObj("append", types.NewSlice(et), ProvFresh)
	st.Heap[o] = ArrS{elems}
	n := BV64(uint64(len(elems)))
	return SliceV{Nil: False, Obj: o, Off: BV64(0), Len: n, Cap: n}
}

// ---------------- maps (integer keys) ----------------

func (fx *FnExec) makeMap(st *State, t types.Type) Value {
	mt := t.Underlying().(*types.Map)
	kw, ok := IsByteLike(mt.Key())
	if !ok {
		panic(Unsupported{"map with non-integer key"})
	}
	vw, ok := IsByteLike(mt.Elem())
	if !ok {
		panic(Unsupported{"map with non-scalar value"})
	}
	o := fx.Cx.NewObj("map", t, ProvFresh)
	st.Heap[o] = MapContent{Present: ConstArr(Arr(64, 1), BVC(1, 0)), Val: ConstArr(Arr(64, vw), BVC(vw, 0)), KW: kw, VW: vw}
	return MapV{Nil: False, Obj: o}
}

func (fx *FnExec) mapKey(v Value, t types.Type) *Term { return toIdx(v, t) }

func (fx *FnExec) mapLookup(fr *Frame, st *State, x *ssa.Lookup, m MapV) Value {
	mt := x.X.Type().Underlying().(*types.Map)
	key := fx.mapKey(fx.val(fr, st, x.Index), x.Index.Type())
	var pres, val *Term
	vw, _ := IsByteLike(mt.Elem())
	if m.Obj == nil {
		pres, val = False, BVC(vw, 0)
	} else {
		mc := fx.heapGet(st, m.Obj).(MapContent)
		pres = And(Not(m.Nil), Eq(Select(mc.Present, key), BVC(1, 1)))
		val = Ite(pres, Select(mc.Val, key), BVC(vw, 0))
	}
	res := elemToScalar(val, mt.Elem())
	if x.CommaOk {
		return TupleV{[]Value{res, Scalar{pres}}}
	}
	return res
}

func (fx *FnExec) mapUpdate(fr *Frame, st *State, x *ssa.MapUpdate) {
	m := fx.val(fr, st, x.Map).(MapV)
	fx.check(fr, st, x, "safety.nil", Not(m.Nil), "assignment to entry in nil map")
	if st.Dead || m.Obj == nil {
		st.Dead = true
		return
	}
	mc := fx.heapGet(st, m.Obj).(MapContent)
	key := fx.mapKey(fx.val(fr, st, x.Key), x.Key.Type())
	v := fx.val(fr, st, x.Value).(Scalar)
	if fx.OnStore != nil {
		fx.OnStore(fx, st, m.Obj, nil, fx.siteName(fr, x, "frame"))
	}
	st.Heap[m.Obj] = MapContent{Present: Store(mc.Present, key, BVC(1, 1)), Val: Store(mc.Val, key, scalarToElem(v, mc.VW)), KW: mc.KW, VW: mc.VW}
}

func (fx *FnExec) mapDelete(fr *Frame, st *State, m MapV, kv Value) {
	if m.Obj == nil {
		return
	}
	mc := fx.heapGet(st, m.Obj).(MapContent)
	key := toIdx(kv, types.Typ[types.Int64])
	if fx.OnStore != nil {
		fx.OnStore(fx, st, m.Obj, nil, "delete")
	}
	st.Heap[m.Obj] = MapContent{Present: Store(mc.Present, key, BVC(1, 0)), Val: mc.Val, KW: mc.KW, VW: mc.VW}
}

// ---------------- range ----------------

type rangeIter struct {
	X   Value
	Pos *Term
}

func (fx *FnExec) rangeInit(fr *Frame, st *State, x *ssa.Range) Value {
	v := fx.val(fr, st, x.X)
	if _, ok := v.(StrV); ok {
		return &rangeIter{X: v, Pos: BV64(0)}
	}
	panic(Unsupported{fmt.Sprintf("range over %T", v)})
}

func (fx *FnExec) rangeNext(fr *Frame, st *State, x *ssa.Next) Value {
	it := fx.val(fr, st, x.Iter).(*rangeIter)
	s := it.X.(StrV)
	// ASCII-only model: each step yields one byte as a rune; non-ASCII bytes yield an abstract rune of width 1..4.
	ok := ULt(it.Pos, s.Len)
	b := s.C.Elem(Add(s.Off, it.Pos))
	ascii := ULt(b, BVC(8, 0x80))
	fx.Cx.Note("range over string: runes modelled exactly for ASCII; a non-ASCII lead byte yields an unconstrained rune and advances 1..4 octets")
	r := Ite(ascii, ZExt(32, b), fx.Cx.Fresh("rune", BV(32)))
	adv := Ite(ascii, BV64(1), fx.Cx.Fresh("runelen", BV(64)))
	if !adv.IsConst() {
		st.Assume(Or(ascii, And(ULe(BV64(1), adv), ULe(adv, BV64(4)))))
	}
	key := it.Pos
	fr.Env[x.Iter] = &rangeIter{X: s, Pos: Ite(ok, Add(it.Pos, adv), it.Pos)}
	return TupleV{[]Value{Scalar{ok}, Scalar{key}, Scalar{r}}}
}

// ---------------- loops ----------------

// loopHook handles cut-points at loop headers that carry a LoopSpec. Returns true if it took over execution.
func (fx *FnExec) loopHook(fr *Frame, b *ssa.BasicBlock, prev *ssa.BasicBlock, st *State, k func(*State, Value)) bool {
	if fx.Cx.Loops == nil || prev == nil {
		return false
	}
	ord, isHeader := LoopOrdinal(fr.Fn, b)
	if !isHeader {
		return false
	}
	spec := fx.Cx.Loops(fr.Fn, ord)
	if spec == nil || spec.Invariant == nil {
		return false
	}
	return fx.cutLoop(fr, b, prev, st, k, ord, spec)
}

func (fx *FnExec) hasLoopSpec(fn *ssa.Function, b *ssa.BasicBlock) bool {
	if fx.Cx.Loops == nil {
		return false
	}
	ord, isH := LoopOrdinal(fn, b)
	if !isH {
		return false
	}
	sp := fx.Cx.Loops(fn, ord)
	return sp != nil && sp.Invariant != nil
}

// LoopOrdinal: rank of block b among loop headers of fn (in block order); a header is a block with a back edge
// from a block it dominates.
func LoopOrdinal(fn *ssa.Function, b *ssa.BasicBlock) (int, bool) {
	hs := LoopHeaders(fn)
	for i, h := range hs {
		if h == b {
			return i, true
		}
	}
	return 0, false
}

var loopCache sync.Map

func LoopHeaders(fn *ssa.Function) []*ssa.BasicBlock {
	if v, ok := loopCache.Load(fn); ok {
		return v.([]*ssa.BasicBlock)
	}
	var hs []*ssa.BasicBlock
	for _, b := range fn.Blocks {
		for _, p := range b.Preds {
			if b.Dominates(p) {
				hs = append(hs, b)
				break
			}
		}
	}
	sort.Slice(hs, func(i, j int) bool { return hs[i].Index < hs[j].Index })
	loopCache.Store(fn, hs)
	return hs
}

// LoopBlocks returns the natural loop of header h.
func LoopBlocks(h *ssa.BasicBlock) map[*ssa.BasicBlock]bool {
	in := map[*ssa.BasicBlock]bool{h: true}
	var stack []*ssa.BasicBlock
	for _, p := range h.Preds {
		if h.Dominates(p) {
			stack = append(stack, p)
		}
	}
	for len(stack) > 0 {
		n := stack[len(stack)-1]
		stack = stack[:len(stack)-1]
		if in[n] {
			continue
		}
		in[n] = true
		for _, p := range n.Preds {
			stack = append(stack, p)
		}
	}
	return in
}

// constTable turns a large array of constants (built by a chain of stores during package init) into a table.
func constTable(name string, v Value) Value {
	a, ok := v.(ArrV)
	if !ok || !a.Len.IsConst() || a.Len.Val <= vecMax || a.Len.Val > 65536 {
		return v
	}
	n := a.Len.Val
	vals := make([]uint64, n)
	for i := uint64(0); i < n; i++ {
		e := a.C.Elem(BV64(i))
		if !e.IsConst() {
			return v
		}
		vals[i] = e.Val
	}
	return ArrV{EW: a.EW, Len: a.Len, C: &CTab{Name: name, V: vals, W: a.EW}}
}
