// Package sym: symbolic values, memory and the go/ssa symbolic executor.
package sym

import (
	"fmt"
	"go/types"
	"sync"

	. "verif/engine/internal/smt"
)

type Value interface{}

// Scalar: integer (bit-vector of the Go width) or bool.
type Scalar struct{ T *Term }

type StructV struct{ F []Value }

// ArrV: array of scalar elements (fixed array, or backing store of a slice/string).
type ArrV struct {
	EW  int   // element width in bits (bool = 1)
	Len *Term // BV64
	C   Content
}

// ArrS: constant-length array of composite elements.
type ArrS struct{ Elems []Value }

// ArrU: array of composite elements with symbolic length and unknown content (reads yield fresh values).
type ArrU struct {
	ET  types.Type
	Len *Term
	ID  int
}

func (cx *Ctx) NewArrU(et types.Type, ln *Term) ArrU {
	cx.mu.Lock()
	cx.objN++
	id := cx.objN
	cx.mu.Unlock()
	cx.Note("slices of composite elements with symbolic length are modelled with unknown content (every read yields an unconstrained element)")
	return ArrU{ET: et, Len: ln, ID: id}
}

type PathEl struct {
	Field int   // >=0: struct field; -1: index
	Index *Term // BV64 when Field == -1
}
type Path []PathEl

type Prov int

const (
	ProvFresh Prov = iota
	ProvParam
	ProvGlobal
	ProvLocal
)

type Object struct {
	ID    int
	Name  string
	Typ   types.Type
	Prov  Prov
	Const bool // read-only global table
}

type PtrV struct {
	Nil  *Term // Bool
	Obj  *Object
	Path Path
}

type SliceV struct {
	Nil           *Term
	Obj           *Object
	Path          Path // path to the array inside Obj
	Off, Len, Cap *Term
}

// StrV: immutable string; content held by value.
type StrV struct {
	C   Content
	Off *Term
	Len *Term
	Max uint64 // optional: known upper bound of a symbolic Len (0 = none); lets comparisons be expanded exactly
}

// ErrV: error interface values; Code: 0 nil, 1 io.EOF, 2 io.ErrUnexpectedEOF, >=3 other
type ErrV struct{ Code *Term }

type IfaceV struct {
	Nil *Term
	Dyn types.Type
	V   Value
}

type TupleV struct{ V []Value }

type MapV struct {
	Nil *Term
	Obj *Object
}

// MapContent is the heap value of a map object: presence and value arrays keyed by BV64.
type MapContent struct {
	Present *Term // Array BV64 -> BV1
	Val     *Term // Array BV64 -> BV(w) (nil if unused)
	KW, VW  int
}

type FuncV struct {
	Name string
	Fn   interface{}
	Bind []Value
}

// Opaque: value of a type we do not model; any use other than passing it around is out of subset.
type Opaque struct {
	Name string
	T    types.Type
	Data []*Term // terms the opaque value was built from (e.g. key material of a cipher)
}

// CFunc: content given element-wise by a function of the index.
type CFunc struct {
	F func(i *Term) *Term
	W int
}

func (c CFunc) Width() int         { return c.W }
func (c CFunc) Elem(i *Term) *Term { return c.F(i) }

func BV64(v uint64) *Term { return BVC(64, v) }

// ---------------- Content algebra ----------------

type Content interface {
	Elem(i *Term) *Term // i is BV64
	Width() int
}

type CSym struct {
	A *Term
}
type CZero struct{ W int }
type CVec struct {
	E []*Term
	W int
}
type CTab struct { // read-only constant table
	Name string
	V    []uint64
	W    int
	arr  *Term
}
type elemMemo struct {
	mu sync.Mutex
	m  map[uint64]*Term
}

func (e *elemMemo) get(i *Term) (*Term, bool) {
	e.mu.Lock()
	defer e.mu.Unlock()
	t, ok := e.m[i.ID()]
	return t, ok
}
func (e *elemMemo) put(i, t *Term) {
	e.mu.Lock()
	if e.m == nil {
		e.m = map[uint64]*Term{}
	}
	e.m[i.ID()] = t
	e.mu.Unlock()
}

type CStore struct {
	B    Content
	I, V *Term
	memo elemMemo
}
type CCopy struct {
	B       Content
	DOff    *Term
	Src     Content
	SOff, N *Term
	memo    elemMemo
}
type CIte struct {
	C    *Term
	A, B Content
	memo elemMemo
}

func (c CSym) Width() int    { return c.A.S.W }
func (c CZero) Width() int   { return c.W }
func (c CVec) Width() int    { return c.W }
func (c *CTab) Width() int   { return c.W }
func (c *CStore) Width() int { return c.B.Width() }
func (c *CCopy) Width() int  { return c.B.Width() }
func (c *CIte) Width() int   { return c.A.Width() }

func (c CSym) Elem(i *Term) *Term  { return Select(c.A, i) }
func (c CZero) Elem(i *Term) *Term { return BVC(c.W, 0) }
func (c CVec) Elem(i *Term) *Term {
	if i.IsConst() {
		if i.Val < uint64(len(c.E)) {
			return c.E[i.Val]
		}
		return BVC(c.W, 0)
	}
	r := BVC(c.W, 0)
	for k := len(c.E) - 1; k >= 0; k-- {
		r = Ite(Eq(i, BV64(uint64(k))), c.E[k], r)
	}
	return r
}
func (c *CTab) Elem(i *Term) *Term {
	if i.IsConst() {
		if i.Val < uint64(len(c.V)) {
			return BVC(c.W, c.V[i.Val])
		}
		return BVC(c.W, 0)
	}
	// narrow index: if i is zero_extend of an 8-bit value and table has 256 entries use an 8-bit indexed array
	if c.arr == nil {
		a := ConstArr(Arr(64, c.W), BVC(c.W, 0))
		for k, v := range c.V {
			a = Store(a, BV64(uint64(k)), BVC(c.W, v))
		}
		c.arr = a
	}
	return Select(c.arr, i)
}
func (c *CStore) Elem(i *Term) *Term {
	e := Eq(i, c.I)
	if e.IsTrue() {
		return c.V
	}
	if t, ok := c.memo.get(i); ok {
		return t
	}
	var r *Term
	if e.IsFalse() {
		r = c.B.Elem(i)
	} else {
		r = Ite(e, c.V, c.B.Elem(i))
	}
	c.memo.put(i, r)
	return r
}
func (c *CCopy) Elem(i *Term) *Term {
	if t, ok := c.memo.get(i); ok {
		return t
	}
	in := And(ULe(c.DOff, i), ULt(Sub(i, c.DOff), c.N))
	var r *Term
	if in.IsFalse() {
		r = c.B.Elem(i)
	} else {
		s := c.Src.Elem(Add(Sub(i, c.DOff), c.SOff))
		if in.IsTrue() {
			r = s
		} else {
			r = Ite(in, s, c.B.Elem(i))
		}
	}
	c.memo.put(i, r)
	return r
}
func (c *CIte) Elem(i *Term) *Term {
	if t, ok := c.memo.get(i); ok {
		return t
	}
	r := Ite(c.C, c.A.Elem(i), c.B.Elem(i))
	c.memo.put(i, r)
	return r
}

const vecMax = 80

// StoreC returns content c with element i replaced by v.
func StoreC(c Content, i, v *Term) Content {
	if cv, ok := c.(CVec); ok {
		ne := make([]*Term, len(cv.E))
		if i.IsConst() {
			copy(ne, cv.E)
			if i.Val < uint64(len(ne)) {
				ne[i.Val] = v
			}
		} else {
			for k := range ne {
				ne[k] = Ite(Eq(i, BV64(uint64(k))), v, cv.E[k])
			}
		}
		return CVec{E: ne, W: cv.W}
	}
	return &CStore{B: c, I: i, V: v}
}

// CopyC returns dst with dst[dOff .. dOff+n) := src[sOff .. sOff+n).
func CopyC(dst Content, dOff *Term, src Content, sOff, n *Term) Content {
	if n.IsConst() && n.Val == 0 {
		return dst
	}
	if cv, ok := dst.(CVec); ok {
		ne := make([]*Term, len(cv.E))
		for k := range ne {
			kk := BV64(uint64(k))
			in := And(ULe(dOff, kk), ULt(Sub(kk, dOff), n))
			if in.IsFalse() {
				ne[k] = cv.E[k]
				continue
			}
			ne[k] = Ite(in, src.Elem(Add(Sub(kk, dOff), sOff)), cv.E[k])
		}
		return CVec{E: ne, W: cv.W}
	}
	if n.IsConst() && n.Val <= 16 && dOff.IsConst() {
		c := dst
		for k := uint64(0); k < n.Val; k++ {
			c = StoreC(c, BV64(dOff.Val+k), src.Elem(Add(sOff, BV64(k))))
		}
		return c
	}
	return &CCopy{B: dst, DOff: dOff, Src: src, SOff: sOff, N: n}
}

func IteC(c *Term, a, b Content) Content {
	if c.IsTrue() {
		return a
	}
	if c.IsFalse() {
		return b
	}
	av, ok1 := a.(CVec)
	bv, ok2 := b.(CVec)
	if ok1 && ok2 && len(av.E) == len(bv.E) {
		ne := make([]*Term, len(av.E))
		for k := range ne {
			ne[k] = Ite(c, av.E[k], bv.E[k])
		}
		return CVec{E: ne, W: av.W}
	}
	return &CIte{C: c, A: a, B: b}
}

// ---------------- type helpers ----------------

func IsByteLike(t types.Type) (w int, ok bool) {
	b, ok := t.Underlying().(*types.Basic)
	if !ok {
		return 0, false
	}
	switch b.Kind() {
	case types.Bool, types.UntypedBool:
		return 1, true
	case types.Int8, types.Uint8:
		return 8, true
	case types.Int16, types.Uint16:
		return 16, true
	case types.Int32, types.Uint32, types.UntypedRune:
		return 32, true
	case types.Int, types.Uint, types.Int64, types.Uint64, types.Uintptr, types.UntypedInt:
		return 64, true
	}
	return 0, false
}

func IsSigned(t types.Type) bool {
	b, ok := t.Underlying().(*types.Basic)
	if !ok {
		return false
	}
	return b.Info()&types.IsInteger != 0 && b.Info()&types.IsUnsigned == 0
}

func IsBool(t types.Type) bool {
	b, ok := t.Underlying().(*types.Basic)
	return ok && b.Info()&types.IsBoolean != 0
}

func IsString(t types.Type) bool {
	b, ok := t.Underlying().(*types.Basic)
	return ok && b.Info()&types.IsString != 0
}

func IsErrorType(t types.Type) bool {
	return types.Identical(t, types.Universe.Lookup("error").Type())
}

// scalarToElem converts a scalar value to an array-element bit-vector.
func scalarToElem(s Scalar, w int) *Term {
	if s.T.S.K == KBool {
		return Ite(s.T, BVC(1, 1), BVC(1, 0))
	}
	return s.T
}
func elemToScalar(t *Term, et types.Type) Scalar {
	if IsBool(et) {
		return Scalar{Eq(t, BVC(1, 1))}
	}
	return Scalar{t}
}

// Zero value of a Go type.
func (cx *Ctx) Zero(t types.Type) Value {
	switch u := t.Underlying().(type) {
	case *types.Basic:
		if u.Info()&types.IsBoolean != 0 {
			return Scalar{False}
		}
		if u.Info()&types.IsString != 0 {
			return StrV{C: CZero{8}, Off: BV64(0), Len: BV64(0)}
		}
		if w, ok := IsByteLike(t); ok {
			return Scalar{BVC(w, 0)}
		}
		if u.Kind() == types.UnsafePointer {
			return Opaque{Name: "unsafe.Pointer", T: t}
		}
		if u.Info()&types.IsFloat != 0 {
			return Opaque{Name: "float", T: t}
		}
	case *types.Struct:
		f := make([]Value, u.NumFields())
		for i := range f {
			f[i] = cx.Zero(u.Field(i).Type())
		}
		return StructV{f}
	case *types.Array:
		if w, ok := IsByteLike(u.Elem()); ok {
			n := int(u.Len())
			if n <= vecMax {
				e := make([]*Term, n)
				for i := range e {
					e[i] = BVC(w, 0)
				}
				return ArrV{EW: w, Len: BV64(uint64(n)), C: CVec{E: e, W: w}}
			}
			return ArrV{EW: w, Len: BV64(uint64(n)), C: CZero{w}}
		}
		es := make([]Value, u.Len())
		for i := range es {
			es[i] = cx.Zero(u.Elem())
		}
		return ArrS{es}
	case *types.Pointer:
		return PtrV{Nil: True}
	case *types.Slice:
		return SliceV{Nil: True, Off: BV64(0), Len: BV64(0), Cap: BV64(0)}
	case *types.Interface:
		if IsErrorType(t) {
			return ErrV{BVC(8, 0)}
		}
		return IfaceV{Nil: True}
	case *types.Map:
		return MapV{Nil: True}
	case *types.Signature:
		return FuncV{}
	case *types.Chan:
		return Opaque{Name: "chan", T: t}
	}
	return Opaque{Name: "zero:" + t.String(), T: t}
}

// IteV merges two values of the same shape under condition c.
func IteV(c *Term, a, b Value) Value {
	if c.IsTrue() {
		return a
	}
	if c.IsFalse() {
		return b
	}
	switch x := a.(type) {
	case Scalar:
		return Scalar{Ite(c, x.T, b.(Scalar).T)}
	case StructV:
		y := b.(StructV)
		f := make([]Value, len(x.F))
		for i := range f {
			f[i] = IteV(c, x.F[i], y.F[i])
		}
		return StructV{f}
	case ArrV:
		y := b.(ArrV)
		return ArrV{EW: x.EW, Len: Ite(c, x.Len, y.Len), C: IteC(c, x.C, y.C)}
	case ArrS:
		y := b.(ArrS)
		e := make([]Value, len(x.Elems))
		for i := range e {
			e[i] = IteV(c, x.Elems[i], y.Elems[i])
		}
		return ArrS{e}
	case ErrV:
		return ErrV{Ite(c, x.Code, b.(ErrV).Code)}
	case ArrU:
		if y, ok := b.(ArrU); ok {
			if y.ID == x.ID {
				return x
			}
			return ArrU{ET: x.ET, Len: Ite(c, x.Len, y.Len), ID: -x.ID*100000 - y.ID}
		}
	case StrV:
		y := b.(StrV)
		return StrV{C: IteC(c, x.C, y.C), Off: Ite(c, x.Off, y.Off), Len: Ite(c, x.Len, y.Len)}
	case PtrV:
		y := b.(PtrV)
		if x.Obj == y.Obj && pathEq(x.Path, y.Path) {
			return PtrV{Nil: Ite(c, x.Nil, y.Nil), Obj: x.Obj, Path: x.Path}
		}
		if x.Nil.IsTrue() {
			return PtrV{Nil: Or(c, y.Nil), Obj: y.Obj, Path: y.Path}
		}
		if y.Nil.IsTrue() {
			return PtrV{Nil: Or(Not(c), x.Nil), Obj: x.Obj, Path: x.Path}
		}
	case SliceV:
		y := b.(SliceV)
		if x.Obj == y.Obj && pathEq(x.Path, y.Path) {
			return SliceV{Nil: Ite(c, x.Nil, y.Nil), Obj: x.Obj, Path: x.Path, Off: Ite(c, x.Off, y.Off), Len: Ite(c, x.Len, y.Len), Cap: Ite(c, x.Cap, y.Cap)}
		}
		if x.Obj == nil {
			return SliceV{Nil: Or(c, y.Nil), Obj: y.Obj, Path: y.Path, Off: y.Off, Len: Ite(c, x.Len, y.Len), Cap: Ite(c, x.Cap, y.Cap)}
		}
		if y.Obj == nil {
			return SliceV{Nil: Or(Not(c), x.Nil), Obj: x.Obj, Path: x.Path, Off: x.Off, Len: Ite(c, x.Len, y.Len), Cap: Ite(c, x.Cap, y.Cap)}
		}
	}
	panic(Unsupported{fmt.Sprintf("IteV on %T/%T", a, b)})
}

func pathEq(a, b Path) bool {
	if len(a) != len(b) {
		return false
	}
	for i := range a {
		if a[i].Field != b[i].Field || a[i].Index != b[i].Index {
			return false
		}
	}
	return true
}

type Unsupported struct{ Msg string }

func (u Unsupported) Error() string { return "out of subset: " + u.Msg }
