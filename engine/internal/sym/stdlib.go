package sym

import (
	"fmt"
	"go/types"
	"strings"

	"golang.org/x/tools/go/ssa"

	. "verif/engine/internal/smt"
)

// Trusted models of standard-library and dependency functions (DESIGN.md §5).

const (
	ErrNil    = 0
	ErrEOF    = 1
	ErrUEOF   = 2
	ErrOther  = 3
	bufFldBuf = 0
	bufFldOff = 1
)

func errV(code uint64) ErrV { return ErrV{BVC(8, code)} }

func (cx *Ctx) InstallStdlib() {
	in := cx.Intrinsics
	defer cx.InstallStdlib2()
	ret := func(v Value) Intrinsic {
		return func(fx *FnExec, fr *Frame, call *ssa.CallCommon, args []Value, st *State, site string, k func(*State, Value)) {
			k(st, v)
		}
	}
	// ---- errors / fmt / log ----
	in["errors.New"] = ret(errV(ErrOther))
	in["fmt.Errorf"] = ret(errV(ErrOther))
	in["log.Printf"] = ret(nil)
	for _, m := range []string{"Debugf", "Debugln", "Error", "Errorf", "Errorln", "Infoln", "Infof", "Traceln", "Tracef", "Warnf", "Warningln", "Warnln", "Warn", "Info", "Debug", "Trace"} {
		in["(*github.com/sirupsen/logrus.Entry)."+m] = ret(nil)
	}
	// ---- bytes.Buffer ----
	in["bytes.NewBuffer"] = func(fx *FnExec, fr *Frame, call *ssa.CallCommon, args []Value, st *State, site string, k func(*State, Value)) {
		o := fx.Cx.NewObj("bytes.Buffer", call.Signature().Results().At(0).Type().(*types.Pointer).Elem(), ProvFresh)
		st.Heap[o] = StructV{[]Value{args[0], Scalar{BV64(0)}, Scalar{BVC(8, 0)}}}
		k(st, PtrV{Nil: False, Obj: o})
	}
	in["bytes.NewReader"] = func(fx *FnExec, fr *Frame, call *ssa.CallCommon, args []Value, st *State, site string, k func(*State, Value)) {
		o := fx.Cx.NewObj("bytes.Reader", call.Signature().Results().At(0).Type().(*types.Pointer).Elem(), ProvFresh)
		st.Heap[o] = StructV{[]Value{args[0], Scalar{BV64(0)}, Scalar{BVC(64, ^uint64(0))}}}
		k(st, PtrV{Nil: False, Obj: o})
	}
	in["(*bytes.Buffer).Len"] = func(fx *FnExec, fr *Frame, call *ssa.CallCommon, args []Value, st *State, site string, k func(*State, Value)) {
		b, buf, off := fx.bufParts(fr, st, call, args[0], site)
		if b == nil {
			return
		}
		k(st, Scalar{Sub(buf.Len, off)})
	}
	in["(*bytes.Buffer).Bytes"] = func(fx *FnExec, fr *Frame, call *ssa.CallCommon, args []Value, st *State, site string, k func(*State, Value)) {
		b, buf, off := fx.bufParts(fr, st, call, args[0], site)
		if b == nil {
			return
		}
		if buf.Obj == nil {
			k(st, SliceV{Nil: buf.Nil, Off: BV64(0), Len: BV64(0), Cap: BV64(0)})
			return
		}
		k(st, SliceV{Nil: buf.Nil, Obj: buf.Obj, Path: buf.Path, Off: Add(buf.Off, off), Len: Sub(buf.Len, off), Cap: Sub(buf.Cap, off)})
	}
	in["(*bytes.Buffer).Next"] = func(fx *FnExec, fr *Frame, call *ssa.CallCommon, args []Value, st *State, site string, k func(*State, Value)) {
		b, buf, off := fx.bufParts(fr, st, call, args[0], site)
		if b == nil {
			return
		}
		n := args[1].(Scalar).T
		fx.Oblige(st, site+".lib[Next]", "safety.lib", SLe(BV64(0), n), "", "bytes.Buffer.Next(n) panics for negative n (slice bounds)")
		st.Assume(SLe(BV64(0), n))
		avail := Sub(buf.Len, off)
		m := Ite(ULt(avail, n), avail, n)
		fx.setBufOff(st, b, Add(off, m))
		if buf.Obj == nil {
			k(st, SliceV{Nil: False, Off: BV64(0), Len: BV64(0), Cap: BV64(0)})
			return
		}
		k(st, SliceV{Nil: False, Obj: buf.Obj, Path: buf.Path, Off: Add(buf.Off, off), Len: m, Cap: Sub(buf.Cap, off)})
	}
	in["(*bytes.Buffer).ReadByte"] = func(fx *FnExec, fr *Frame, call *ssa.CallCommon, args []Value, st *State, site string, k func(*State, Value)) {
		b, buf, off := fx.bufParts(fr, st, call, args[0], site)
		if b == nil {
			return
		}
		empty := Eq(buf.Len, off)
		s1 := st.Clone()
		s1.Assume(empty)
		if !s1.Dead {
			k(s1, TupleV{[]Value{Scalar{BVC(8, 0)}, errV(ErrEOF)}})
		}
		st.Assume(Not(empty))
		if !st.Dead {
			c := fx.sliceContent(st, buf)
			fx.setBufOff(st, b, Add(off, BV64(1)))
			k(st, TupleV{[]Value{Scalar{c.Elem(Add(buf.Off, off))}, errV(ErrNil)}})
		}
	}
	in["(*bytes.Buffer).Read"] = func(fx *FnExec, fr *Frame, call *ssa.CallCommon, args []Value, st *State, site string, k func(*State, Value)) {
		b, buf, off := fx.bufParts(fr, st, call, args[0], site)
		if b == nil {
			return
		}
		p := args[1].(SliceV)
		avail := Sub(buf.Len, off)
		empty := Eq(avail, BV64(0))
		// empty buffer: (0, io.EOF) unless len(p) == 0
		s1 := st.Clone()
		s1.Assume(empty)
		if !s1.Dead {
			k(s1, TupleV{[]Value{Scalar{BV64(0)}, ErrV{Ite(Eq(p.Len, BV64(0)), BVC(8, ErrNil), BVC(8, ErrEOF))}}})
		}
		st.Assume(Not(empty))
		if !st.Dead {
			n := Ite(ULt(avail, p.Len), avail, p.Len)
			if p.Obj != nil {
				a := fx.arrayOf(st, p.Obj, p.Path)
				if fx.OnStore != nil {
					fx.OnStore(fx, st, p.Obj, p.Path, site)
				}
				st.Heap[p.Obj] = fx.writePath(fx.heapGet(st, p.Obj), p.Path, ArrV{EW: a.EW, Len: a.Len, C: CopyC(a.C, p.Off, fx.sliceContent(st, buf), Add(buf.Off, off), n)})
			}
			fx.setBufOff(st, b, Add(off, n))
			k(st, TupleV{[]Value{Scalar{n}, errV(ErrNil)}})
		}
	}
	in["(*bytes.Reader).Read"] = in["(*bytes.Buffer).Read"]
	in["(*bytes.Buffer).Write"] = func(fx *FnExec, fr *Frame, call *ssa.CallCommon, args []Value, st *State, site string, k func(*State, Value)) {
		b, _, _ := fx.bufParts(fr, st, call, args[0], site)
		if b == nil {
			return
		}
		p := args[1].(SliceV)
		fx.bufAppend(st, b, fx.sliceContent(st, p), p.Off, p.Len)
		k(st, TupleV{[]Value{Scalar{p.Len}, errV(ErrNil)}})
	}
	in["(*bytes.Buffer).ReadFrom"] = func(fx *FnExec, fr *Frame, call *ssa.CallCommon, args []Value, st *State, site string, k func(*State, Value)) {
		// only used with another *bytes.Buffer as the reader: moves all unread bytes
		b, _, _ := fx.bufParts(fr, st, call, args[0], site)
		if b == nil {
			return
		}
		src, ok := args[1].(IfaceV)
		if !ok {
			panic(Unsupported{"ReadFrom: reader is not a concrete value"})
		}
		sp, ok := src.V.(PtrV)
		if !ok || !strings.HasSuffix(src.Dyn.String(), "bytes.Buffer") {
			panic(Unsupported{"ReadFrom: reader is not *bytes.Buffer"})
		}
		sb, sbuf, soff := fx.bufParts(fr, st, call, sp, site)
		if sb == nil {
			return
		}
		n := Sub(sbuf.Len, soff)
		fx.bufAppend(st, b, fx.sliceContent(st, sbuf), Add(sbuf.Off, soff), n)
		fx.setBufOff(st, sb, sbuf.Len)
		k(st, TupleV{[]Value{Scalar{n}, errV(ErrNil)}})
	}
	// ---- encoding/binary ----
	in["encoding/binary.Read"] = func(fx *FnExec, fr *Frame, call *ssa.CallCommon, args []Value, st *State, site string, k func(*State, Value)) {
		fx.binaryRead(fr, st, call, args, site, k)
	}
	in["encoding/binary.Write"] = func(fx *FnExec, fr *Frame, call *ssa.CallCommon, args []Value, st *State, site string, k func(*State, Value)) {
		fx.binaryWrite(fr, st, call, args, site, k)
	}
	beGet := func(nb int) Intrinsic {
		return func(fx *FnExec, fr *Frame, call *ssa.CallCommon, args []Value, st *State, site string, k func(*State, Value)) {
			s := args[1].(SliceV)
			fx.Oblige(st, site+".lib[BigEndian]", "safety.lib", ULe(BV64(uint64(nb)), s.Len), "", fmt.Sprintf("binary.BigEndian.Uint%d needs %d octets", nb*8, nb))
			st.Assume(ULe(BV64(uint64(nb)), s.Len))
			if st.Dead {
				return
			}
			c := fx.sliceContent(st, s)
			v := c.Elem(s.Off)
			for i := 1; i < nb; i++ {
				v = Concat(v, c.Elem(Add(s.Off, BV64(uint64(i)))))
			}
			k(st, Scalar{v})
		}
	}
	bePut := func(nb int) Intrinsic {
		return func(fx *FnExec, fr *Frame, call *ssa.CallCommon, args []Value, st *State, site string, k func(*State, Value)) {
			s := args[1].(SliceV)
			v := args[2].(Scalar).T
			fx.Oblige(st, site+".lib[BigEndian]", "safety.lib", ULe(BV64(uint64(nb)), s.Len), "", fmt.Sprintf("binary.BigEndian.PutUint%d needs %d octets", nb*8, nb))
			st.Assume(ULe(BV64(uint64(nb)), s.Len))
			if st.Dead || s.Obj == nil {
				return
			}
			a := fx.arrayOf(st, s.Obj, s.Path)
			c := a.C
			for i := 0; i < nb; i++ {
				hi := 8*(nb-i) - 1
				c = StoreC(c, Add(s.Off, BV64(uint64(i))), Extract(hi, hi-7, v))
			}
			if fx.OnStore != nil {
				fx.OnStore(fx, st, s.Obj, s.Path, site)
			}
			st.Heap[s.Obj] = fx.writePath(fx.heapGet(st, s.Obj), s.Path, ArrV{EW: a.EW, Len: a.Len, C: c})
			k(st, nil)
		}
	}
	in["(encoding/binary.bigEndian).Uint16"] = beGet(2)
	in["(encoding/binary.bigEndian).Uint32"] = beGet(4)
	in["(encoding/binary.bigEndian).Uint64"] = beGet(8)
	in["(encoding/binary.bigEndian).PutUint16"] = bePut(2)
	in["(encoding/binary.bigEndian).PutUint32"] = bePut(4)
	in["(encoding/binary.bigEndian).PutUint64"] = bePut(8)
	in["math/bits.RotateLeft8"] = func(fx *FnExec, fr *Frame, call *ssa.CallCommon, args []Value, st *State, site string, k func(*State, Value)) {
		x := args[0].(Scalar).T
		kk := args[1].(Scalar).T // int
		s := BAnd(Extract(7, 0, kk), BVC(8, 7))
		r := BOr(Shl(x, s), LShr(x, BAnd(Sub(BVC(8, 8), s), BVC(8, 7))))
		r = Ite(Eq(s, BVC(8, 0)), x, r)
		k(st, Scalar{r})
	}
	// ---- encoding/hex ----
	in["encoding/hex.EncodeToString"] = func(fx *FnExec, fr *Frame, call *ssa.CallCommon, args []Value, st *State, site string, k func(*State, Value)) {
		s := args[0].(SliceV)
		fx.AddAlloc(st, Shl(s.Len, BV64(1)))
		k(st, StrV{C: CHex{Src: fx.sliceContent(st, s), SOff: s.Off}, Off: BV64(0), Len: Shl(s.Len, BV64(1))})
	}
	in["encoding/hex.DecodeString"] = func(fx *FnExec, fr *Frame, call *ssa.CallCommon, args []Value, st *State, site string, k func(*State, Value)) {
		s := args[0].(StrV)
		odd := Eq(BAnd(s.Len, BV64(1)), BV64(1))
		n := LShr(s.Len, BV64(1))
		// validity of every character: exact when the length is a small constant, otherwise a fresh boolean
		var allHex *Term
		if s.Len.IsConst() && s.Len.Val <= 64 {
			cs := []*Term{}
			for i := uint64(0); i < s.Len.Val; i++ {
				cs = append(cs, isHexChar(s.C.Elem(Add(s.Off, BV64(i)))))
			}
			allHex = And(cs...)
		} else {
			allHex = fx.Cx.Fresh("allhex", Bool)
			fx.Cx.Note("hex.DecodeString on a string of symbolic length: character validity abstracted by a fresh boolean (decoded octets of invalid characters are unconstrained)")
		}
		okc := And(Not(odd), allHex)
		s1 := st.Clone()
		s1.Assume(Not(okc))
		if !s1.Dead {
			// on error the decoded prefix is returned; model: unconstrained short slice
			k(s1, TupleV{[]Value{fx.freshBytes(s1, "hexpartial", n), errV(ErrOther)}})
		}
		st.Assume(okc)
		if !st.Dead {
			o := fx.Cx.NewObj("hex.DecodeString", types.NewSlice(types.Typ[types.Uint8]), ProvFresh)
			st.Heap[o] = ArrV{EW: 8, Len: n, C: CUnhex{Src: s.C, SOff: s.Off}}
			fx.allocGhost(st, n, types.Typ[types.Uint8])
			k(st, TupleV{[]Value{SliceV{Nil: False, Obj: o, Off: BV64(0), Len: n, Cap: n}, errV(ErrNil)}})
		}
	}
}

func isHexChar(c *Term) *Term {
	in := func(lo, hi uint64) *Term { return And(ULe(BVC(8, lo), c), ULe(c, BVC(8, hi))) }
	return Or(in('0', '9'), in('a', 'f'), in('A', 'F'))
}

func hexVal(c *Term) *Term {
	d := Sub(c, BVC(8, '0'))
	lo := Add(Sub(c, BVC(8, 'a')), BVC(8, 10))
	up := Add(Sub(c, BVC(8, 'A')), BVC(8, 10))
	return Ite(ULe(c, BVC(8, '9')), d, Ite(ULe(BVC(8, 'a'), c), lo, up))
}

// CHex: lower-case hex text of Src[SOff:], two characters per octet.
type CHex struct {
	Src  Content
	SOff *Term
}

func (c CHex) Width() int { return 8 }
func (c CHex) Elem(i *Term) *Term {
	b := c.Src.Elem(Add(c.SOff, LShr(i, BV64(1))))
	hi := Eq(BAnd(i, BV64(1)), BV64(0))
	nib := Ite(hi, LShr(b, BVC(8, 4)), BAnd(b, BVC(8, 15)))
	return Ite(ULt(nib, BVC(8, 10)), Add(nib, BVC(8, '0')), Add(nib, BVC(8, 'a'-10)))
}

// CUnhex: octets decoded from hex text Src[SOff:].
type CUnhex struct {
	Src  Content
	SOff *Term
}

func (c CUnhex) Width() int { return 8 }
func (c CUnhex) Elem(i *Term) *Term {
	p := Add(c.SOff, Shl(i, BV64(1)))
	h := hexVal(c.Src.Elem(p))
	l := hexVal(c.Src.Elem(Add(p, BV64(1))))
	return BOr(Shl(h, BVC(8, 4)), BAnd(l, BVC(8, 15)))
}

func (fx *FnExec) freshBytes(st *State, name string, maxLen *Term) SliceV {
	o := fx.Cx.NewObj(name, types.NewSlice(types.Typ[types.Uint8]), ProvFresh)
	ln := fx.Cx.Fresh(name+".len", BV(64))
	st.Assume(ULe(ln, maxLen))
	st.Heap[o] = ArrV{EW: 8, Len: maxLen, C: CSym{fx.Cx.Fresh(name, Arr(64, 8))}}
	return SliceV{Nil: False, Obj: o, Off: BV64(0), Len: ln, Cap: maxLen}
}

func (fx *FnExec) sliceContent(st *State, s SliceV) Content {
	if s.Obj == nil {
		return CZero{8}
	}
	return fx.arrayOf(st, s.Obj, s.Path).C
}

// bufParts: the *bytes.Buffer pointer, its buf slice and read offset. Emits the nil-receiver obligation.
func (fx *FnExec) bufParts(fr *Frame, st *State, call *ssa.CallCommon, recv Value, site string) (*PtrV, SliceV, *Term) {
	p, ok := recv.(PtrV)
	if !ok {
		panic(Unsupported{fmt.Sprintf("bytes.Buffer receiver %T", recv)})
	}
	fx.Oblige(st, site+".nil[Buffer]", "safety.nil", Not(p.Nil), "", "nil *bytes.Buffer")
	st.Assume(Not(p.Nil))
	if st.Dead || p.Obj == nil {
		st.Dead = true
		return nil, SliceV{}, nil
	}
	sv := fx.readPath(st, fx.heapGet(st, p.Obj), p.Path, nil).(StructV)
	return &p, sv.F[bufFldBuf].(SliceV), sv.F[bufFldOff].(Scalar).T
}

func (fx *FnExec) setBufOff(st *State, p *PtrV, off *Term) {
	fx.StoreTo(st, PtrV{Nil: False, Obj: p.Obj, Path: append(append(Path(nil), p.Path...), PathEl{Field: bufFldOff})}, Scalar{off}, "bytes.Buffer")
}

// bufAppend models Write: the buffer's data becomes old ++ src[soff:soff+n] in a fresh backing array.
// BufAppend is the exported form of bufAppend (used by derived codec contracts).
func (fx *FnExec) BufAppend(st *State, p PtrV, src Content, soff, n *Term) {
	fx.bufAppend(st, &p, src, soff, n)
}

func (fx *FnExec) bufAppend(st *State, p *PtrV, src Content, soff, n *Term) {
	sv := fx.readPath(st, fx.heapGet(st, p.Obj), p.Path, nil).(StructV)
	buf := sv.F[bufFldBuf].(SliceV)
	nl := Add(buf.Len, n)
	var base Content = CZero{8}
	if nl.IsConst() && nl.Val <= vecMax {
		e := make([]*Term, nl.Val)
		for i := range e {
			e[i] = BVC(8, 0)
		}
		base = CVec{E: e, W: 8}
		if buf.Obj != nil {
			base = CopyC(base, BV64(0), fx.sliceContent(st, buf), buf.Off, buf.Len)
		}
	} else if buf.Obj != nil {
		if _, isVec := fx.sliceContent(st, buf).(CVec); isVec {
			// explicit fixed-size content cannot grow: re-base it onto an unbounded content
			base = &CCopy{B: CZero{8}, DOff: BV64(0), Src: fx.sliceContent(st, buf), SOff: buf.Off, N: buf.Len}
		} else if buf.Off.IsConst() && buf.Off.Val == 0 {
			// octets beyond Len of the old content are never read through the new slice (Len bounds all reads
			// before they are overwritten), so the old content can be extended in place
			base = fx.sliceContent(st, buf)
		} else {
			base = CopyC(base, BV64(0), fx.sliceContent(st, buf), buf.Off, buf.Len)
		}
	}
	if _, isVec := base.(CVec); isVec && !(nl.IsConst() && nl.Val <= vecMax) {
		base = &CCopy{B: CZero{8}, DOff: BV64(0), Src: base, SOff: BV64(0), N: buf.Len}
	}
	base = CopyC(base, buf.Len, src, soff, n)
	o := fx.Cx.NewObj("bytes.Buffer.buf", types.NewSlice(types.Typ[types.Uint8]), ProvFresh)
	st.Heap[o] = ArrV{EW: 8, Len: nl, C: base}
	fx.allocGhost(st, n, types.Typ[types.Uint8])
	ns := SliceV{Nil: False, Obj: o, Off: BV64(0), Len: nl, Cap: nl}
	fx.StoreTo(st, PtrV{Nil: False, Obj: p.Obj, Path: append(append(Path(nil), p.Path...), PathEl{Field: bufFldBuf})}, ns, "bytes.Buffer")
	fx.Cx.Note("bytes.Buffer writes are modelled as reallocating the buffer's backing array (the written content is exact; in-place reuse of spare capacity of a caller-supplied array is not modelled)")
}

// sizeOfFixed: encoded size of a fixed-size type for encoding/binary, or -1.
func sizeOfFixed(t types.Type) int {
	switch u := t.Underlying().(type) {
	case *types.Basic:
		if w, ok := IsByteLike(t); ok && !IsBool(t) && u.Kind() != types.Int && u.Kind() != types.Uint && u.Kind() != types.Uintptr {
			return w / 8
		}
		if IsBool(t) {
			return 1
		}
	case *types.Array:
		e := sizeOfFixed(u.Elem())
		if e < 0 {
			return -1
		}
		return e * int(u.Len())
	case *types.Struct:
		n := 0
		for i := 0; i < u.NumFields(); i++ {
			e := sizeOfFixed(u.Field(i).Type())
			if e < 0 {
				return -1
			}
			n += e
		}
		return n
	}
	return -1
}

// decodeFixed builds a value of type t from big-endian octets src[off:].
func (fx *FnExec) decodeFixed(t types.Type, src Content, off *Term) Value {
	switch u := t.Underlying().(type) {
	case *types.Basic:
		w, _ := IsByteLike(t)
		if IsBool(t) {
			return Scalar{Ne(src.Elem(off), BVC(8, 0))}
		}
		v := src.Elem(off)
		for i := 1; i < w/8; i++ {
			if fx.littleEndian {
				v = Concat(src.Elem(Add(off, BV64(uint64(i)))), v)
			} else {
				v = Concat(v, src.Elem(Add(off, BV64(uint64(i)))))
			}
		}
		return Scalar{v}
	case *types.Array:
		n := int(u.Len())
		if w, ok := IsByteLike(u.Elem()); ok && w == 8 {
			var base Content
			if n <= vecMax {
				e := make([]*Term, n)
				for i := range e {
					e[i] = src.Elem(Add(off, BV64(uint64(i))))
				}
				base = CVec{E: e, W: 8}
			} else {
				base = CopyC(CZero{8}, BV64(0), src, off, BV64(uint64(n)))
			}
			return ArrV{EW: 8, Len: BV64(uint64(n)), C: base}
		}
		es := sizeOfFixed(u.Elem())
		if w, ok := IsByteLike(u.Elem()); ok {
			e := make([]*Term, n)
			for i := range e {
				e[i] = fx.decodeFixed(u.Elem(), src, Add(off, BV64(uint64(i*es)))).(Scalar).T
			}
			return ArrV{EW: w, Len: BV64(uint64(n)), C: CVec{E: e, W: w}}
		}
		elems := make([]Value, n)
		for i := range elems {
			elems[i] = fx.decodeFixed(u.Elem(), src, Add(off, BV64(uint64(i*es))))
		}
		return ArrS{elems}
	case *types.Struct:
		f := make([]Value, u.NumFields())
		o := off
		for i := range f {
			ft := u.Field(i).Type()
			f[i] = fx.decodeFixed(ft, src, o)
			o = Add(o, BV64(uint64(sizeOfFixed(ft))))
		}
		return StructV{f}
	}
	panic(Unsupported{"binary decode of " + t.String()})
}

func (fx *FnExec) binaryRead(fr *Frame, st *State, call *ssa.CallCommon, args []Value, site string, k func(*State, Value)) {
	r, ok := args[0].(IfaceV)
	if !ok || r.Dyn == nil || !(strings.HasSuffix(r.Dyn.String(), "bytes.Buffer") || strings.HasSuffix(r.Dyn.String(), "bytes.Reader")) {
		panic(Unsupported{fmt.Sprintf("binary.Read from %v", args[0])})
	}
	fx.setByteOrder(args[1])
	defer func() { fx.littleEndian = false }()
	b, buf, off := fx.bufParts(fr, st, call, r.V, site)
	if b == nil {
		return
	}
	dst, ok := args[2].(IfaceV)
	if !ok || dst.Dyn == nil {
		panic(Unsupported{"binary.Read into unknown destination"})
	}
	avail := Sub(buf.Len, off)
	src := fx.sliceContent(st, buf)
	soff := Add(buf.Off, off)
	var n *Term
	var doWrite func(s *State)
	switch d := dst.V.(type) {
	case PtrV:
		et := dst.Dyn.Underlying().(*types.Pointer).Elem()
		sz := sizeOfFixed(et)
		if sz < 0 {
			panic(Unsupported{"binary.Read into " + dst.Dyn.String()})
		}
		n = BV64(uint64(sz))
		doWrite = func(s *State) {
			fx.Oblige(s, site+".nil[dst]", "safety.nil", Not(d.Nil), "", "binary.Read into nil pointer")
			s.Assume(Not(d.Nil))
			if s.Dead {
				return
			}
			fx.StoreTo(s, d, fx.decodeFixed(et, src, soff), site)
		}
	case SliceV:
		et := dst.Dyn.Underlying().(*types.Slice).Elem()
		w, okb := IsByteLike(et)
		if !okb || w != 8 {
			panic(Unsupported{"binary.Read into slice of " + et.String()})
		}
		n = d.Len
		doWrite = func(s *State) {
			if d.Obj == nil {
				return
			}
			a := fx.arrayOf(s, d.Obj, d.Path)
			if fx.OnStore != nil {
				fx.OnStore(fx, s, d.Obj, d.Path, site)
			}
			s.Heap[d.Obj] = fx.writePath(fx.heapGet(s, d.Obj), d.Path, ArrV{EW: 8, Len: a.Len, C: CopyC(a.C, d.Off, src, soff, n)})
		}
	default:
		panic(Unsupported{fmt.Sprintf("binary.Read into %T", dst.V)})
	}
	okc := ULe(n, avail)
	// failure: reader drained, destination untouched
	s1 := st.Clone()
	s1.Assume(Not(okc))
	if !s1.Dead {
		fx.allocGhost(s1, n, types.Typ[types.Uint8])
		fx.setBufOff(s1, b, buf.Len)
		k(s1, ErrV{Ite(Eq(avail, BV64(0)), BVC(8, ErrEOF), BVC(8, ErrUEOF))})
	}
	st.Assume(okc)
	if !st.Dead {
		fx.allocGhost(st, n, types.Typ[types.Uint8])
		doWrite(st)
		if st.Dead {
			return
		}
		fx.setBufOff(st, b, Add(off, n))
		k(st, errV(ErrNil))
	}
}

// bytes.Reader has the same first two fields as bytes.Buffer for our purposes: s []byte, i int64.

// encodeValue appends the big-endian encoding of v (of type t) to the buffer.
func (fx *FnExec) encodeValue(st *State, b *PtrV, v Value, t types.Type) bool {
	switch x := v.(type) {
	case Scalar:
		if sizeOfFixed(t) < 0 {
			return false
		}
		if x.T.S.K == KBool {
			fx.bufAppend(st, b, CVec{E: []*Term{Ite(x.T, BVC(8, 1), BVC(8, 0))}, W: 8}, BV64(0), BV64(1))
			return true
		}
		w := x.T.S.W
		var e []*Term
		for i := w/8 - 1; i >= 0; i-- {
			e = append(e, Extract(8*i+7, 8*i, x.T))
		}
		if fx.littleEndian {
			for i, j := 0, len(e)-1; i < j; i, j = i+1, j-1 {
				e[i], e[j] = e[j], e[i]
			}
		}
		fx.bufAppend(st, b, CVec{E: e, W: 8}, BV64(0), BV64(uint64(len(e))))
		return true
	case SliceV:
		et := t.Underlying().(*types.Slice).Elem()
		if w, ok := IsByteLike(et); !ok || w != 8 {
			return false
		}
		fx.bufAppend(st, b, fx.sliceContent(st, x), x.Off, x.Len)
		return true
	case ArrV:
		if x.EW != 8 {
			return false
		}
		fx.bufAppend(st, b, x.C, BV64(0), x.Len)
		return true
	case StructV:
		stt := t.Underlying().(*types.Struct)
		for i, f := range x.F {
			if !fx.encodeValue(st, b, f, stt.Field(i).Type()) {
				return false
			}
		}
		return true
	case ArrS:
		at := t.Underlying().(*types.Array)
		for _, e := range x.Elems {
			if !fx.encodeValue(st, b, e, at.Elem()) {
				return false
			}
		}
		return true
	case PtrV:
		pt := t.Underlying().(*types.Pointer)
		if x.Obj == nil {
			return false
		}
		return fx.encodeValue(st, b, fx.Load(st, x, pt.Elem()), pt.Elem())
	}
	return false
}

// setByteOrder selects the byte order of the binary.Read / binary.Write in progress from its ByteOrder argument;
// an order the engine cannot identify takes the function out of the modelled subset.
func (fx *FnExec) setByteOrder(order Value) {
	if o, ok := order.(IfaceV); ok && o.Dyn != nil {
		switch {
		case strings.HasSuffix(o.Dyn.String(), "encoding/binary.bigEndian"):
			fx.littleEndian = false
			return
		case strings.HasSuffix(o.Dyn.String(), "encoding/binary.littleEndian"):
			fx.littleEndian = true
			return
		}
	}
	panic(Unsupported{fmt.Sprintf("binary.Read/Write with a byte order the engine cannot identify (%v)", order)})
}

func (fx *FnExec) binaryWrite(fr *Frame, st *State, call *ssa.CallCommon, args []Value, site string, k func(*State, Value)) {
	w, ok := args[0].(IfaceV)
	if !ok || w.Dyn == nil || !strings.HasSuffix(w.Dyn.String(), "bytes.Buffer") {
		panic(Unsupported{"binary.Write to non-Buffer"})
	}
	fx.setByteOrder(args[1])
	defer func() { fx.littleEndian = false }()
	b, _, _ := fx.bufParts(fr, st, call, w.V, site)
	if b == nil {
		return
	}
	d, ok := args[2].(IfaceV)
	if !ok || d.Dyn == nil {
		panic(Unsupported{"binary.Write of unknown value"})
	}
	if p, isPtr := d.V.(PtrV); isPtr {
		fx.Oblige(st, site+".nil[data]", "safety.nil", Not(p.Nil), "", "binary.Write of nil pointer")
		st.Assume(Not(p.Nil))
		if st.Dead {
			return
		}
	}
	if !fx.encodeValue(st, b, d.V, d.Dyn) {
		// unsupported type: binary.Write returns an error
		fx.Cx.Note("binary.Write of a type without fixed size returns an error: " + d.Dyn.String())
		k(st, errV(ErrOther))
		return
	}
	k(st, errV(ErrNil))
}

// sprintf: abstract text except for the formats whose shape matters.
func (fx *FnExec) sprintf(fr *Frame, st *State, call *ssa.CallCommon, args []Value) Value {
	return fx.freshString(st, "sprintf")
}
