package sym

import (
	"fmt"
	"go/types"

	"golang.org/x/tools/go/ssa"

	. "verif/engine/internal/smt"
)

func vecStr(e []*Term) StrV {
	return StrV{C: CVec{E: e, W: 8}, Off: BV64(0), Len: BV64(uint64(len(e)))}
}

// decimalStr: decimal text of an unsigned value of at most 16 bits (exact), minimum `minDigits` digits (zero padded).
func decimalStr(v *Term, minDigits int) StrV {
	w := v.S.W
	maxDigits := 1
	for lim := uint64(10); lim <= mask64(w) && maxDigits < 20; lim *= 10 {
		maxDigits++
	}
	if maxDigits < minDigits {
		maxDigits = minDigits
	}
	// digits most significant first at full width
	digs := make([]*Term, maxDigits)
	x := v
	ten := BVC(w, 10)
	for i := maxDigits - 1; i >= 0; i-- {
		digs[i] = Add(Extract(7, 0, ZExt(maxInt(w, 8), URem(x, ten))), BVC(8, '0'))
		x = UDiv(x, ten)
	}
	// number of significant digits
	n := BV64(uint64(minDigits))
	if minDigits < 1 {
		n = BV64(1)
	}
	p := uint64(1)
	for d := 1; d < maxDigits; d++ {
		p *= 10
		if d+1 > minDigits {
			n = Ite(ULe(BVC(w, p), v), BV64(uint64(d+1)), n)
		}
	}
	// string = last n digits: content index i -> digs[maxDigits - n + i]
	e := make([]*Term, maxDigits)
	for i := 0; i < maxDigits; i++ {
		r := BVC(8, 0)
		for nn := 1; nn <= maxDigits; nn++ {
			j := maxDigits - nn + i
			if j < maxDigits {
				r = Ite(Eq(n, BV64(uint64(nn))), digs[j], r)
			}
		}
		e[i] = r
	}
	return StrV{C: CVec{E: e, W: 8}, Off: BV64(0), Len: n}
}

func mask64(w int) uint64 {
	if w >= 64 {
		return ^uint64(0)
	}
	return (uint64(1) << uint(w)) - 1
}
func maxInt(a, b int) int {
	if a > b {
		return a
	}
	return b
}

// narrow returns an equivalent term of at most 16 bits if t is a zero-extension of a small value or a small constant.
func narrow(t *Term) (*Term, bool) {
	if t.IsConst() && t.Val < 1<<16 {
		return BVC(16, t.Val), true
	}
	if t.Op == "zero_extend" && t.Args[0].S.W <= 16 {
		return t.Args[0], true
	}
	if t.S.W <= 16 {
		return t, true
	}
	return nil, false
}

func hexNibble(n *Term) *Term {
	return Ite(ULt(n, BVC(8, 10)), Add(n, BVC(8, '0')), Add(n, BVC(8, 'a'-10)))
}

func (fx *FnExec) fmtArg(st *State, v Value) Value {
	if iv, ok := v.(IfaceV); ok {
		return iv.V
	}
	return v
}

// sprintfModel handles the format strings used by the library; anything else yields abstract text.
func (fx *FnExec) sprintfModel(st *State, args []Value) Value {
	f, ok := args[0].(StrV)
	if !ok || !f.Len.IsConst() {
		return fx.freshString(st, "sprintf")
	}
	var fb []byte
	for i := uint64(0); i < f.Len.Val; i++ {
		c := f.C.Elem(Add(f.Off, BV64(i)))
		if !c.IsConst() {
			return fx.freshString(st, "sprintf")
		}
		fb = append(fb, byte(c.Val))
	}
	format := string(fb)
	var vals []Value
	if len(args) > 1 {
		if s, ok := args[1].(SliceV); ok && s.Obj != nil {
			if a, ok := st.Heap[s.Obj].(ArrS); ok {
				for _, e := range a.Elems {
					vals = append(vals, fx.fmtArg(st, e))
				}
			}
		}
	}
	out := StrV{C: CVec{W: 8}, Off: BV64(0), Len: BV64(0)}
	ai := 0
	i := 0
	lit := func(s string) {
		if s != "" {
			out = fx.strConcat(out, StrLit(s))
		}
	}
	start := 0
	for i < len(format) {
		if format[i] != '%' {
			i++
			continue
		}
		lit(format[start:i])
		j := i + 1
		pad := 0
		if j+1 < len(format) && format[j] == '0' && format[j+1] >= '1' && format[j+1] <= '9' {
			pad = int(format[j+1] - '0')
			j += 2
		}
		if j >= len(format) || ai >= len(vals) {
			return fx.freshString(st, "sprintf")
		}
		verb := format[j]
		arg := vals[ai]
		ai++
		sc, isSc := arg.(Scalar)
		switch {
		case verb == 'x' && isSc && sc.T.S.K == KBV && sc.T.S.W == 8 && pad == 0:
			hi := LShr(sc.T, BVC(8, 4))
			lo := BAnd(sc.T, BVC(8, 15))
			two := Ne(hi, BVC(8, 0))
			e0 := Ite(two, hexNibble(hi), hexNibble(lo))
			out = fx.strConcat(out, StrV{C: CVec{E: []*Term{e0, hexNibble(lo)}, W: 8}, Off: BV64(0), Len: Ite(two, BV64(2), BV64(1))})
		case verb == 'd' && isSc && sc.T.S.K == KBV:
			if n, ok := narrow(sc.T); ok {
				out = fx.strConcat(out, decimalStr(n, pad))
			} else {
				s := fx.freshString(st, "decimal")
				st.Assume(And(ULe(BV64(1), s.Len), ULe(s.Len, BV64(20))))
				fx.Cx.Note("fmt %d of an integer wider than 16 bits: digits abstracted (length 1..20)")
				out = fx.strConcat(out, s)
			}
		default:
			return fx.freshString(st, "sprintf")
		}
		i = j + 1
		start = i
	}
	lit(format[start:])
	return out
}

func isDigit(c *Term) *Term { return And(ULe(BVC(8, '0'), c), ULe(c, BVC(8, '9'))) }

func (cx *Ctx) InstallStdlib2() {
	in := cx.Intrinsics
	in["fmt.Sprintf"] = func(fx *FnExec, fr *Frame, call *ssa.CallCommon, args []Value, st *State, site string, k func(*State, Value)) {
		k(st, fx.sprintfModel(st, args))
	}
	in["strings.Join"] = func(fx *FnExec, fr *Frame, call *ssa.CallCommon, args []Value, st *State, site string, k func(*State, Value)) {
		s := args[0].(SliceV)
		sep := args[1].(StrV)
		if s.Obj == nil {
			k(st, StrLit(""))
			return
		}
		a, ok := st.Heap[s.Obj].(ArrS)
		if !ok || !s.Len.IsConst() || !s.Off.IsConst() {
			k(st, fx.freshString(st, "join"))
			return
		}
		out := StrLit("")
		for i := uint64(0); i < s.Len.Val; i++ {
			if i > 0 {
				out = fx.strConcat(out, sep)
			}
			out = fx.strConcat(out, a.Elems[s.Off.Val+i].(StrV))
		}
		k(st, out)
	}
	idx := func(last bool) Intrinsic {
		return func(fx *FnExec, fr *Frame, call *ssa.CallCommon, args []Value, st *State, site string, k func(*State, Value)) {
			s := args[0].(StrV)
			sep := args[1].(StrV)
			r := fx.Cx.Fresh("index", BV(64))
			if sep.Len.IsConst() && sep.Len.Val == 1 {
				c := sep.C.Elem(sep.Off)
				found := And(SLe(BV64(0), r), SLt(r, s.Len), Eq(s.C.Elem(Add(s.Off, r)), c))
				st.Assume(Or(Eq(r, BVC(64, ^uint64(0))), found))
				// exactness for short constant-length strings: first/last occurrence
				if s.Len.IsConst() && s.Len.Val <= 32 {
					n := s.Len.Val
					var none []*Term
					for i := uint64(0); i < n; i++ {
						ci := Eq(s.C.Elem(Add(s.Off, BV64(i))), c)
						none = append(none, Not(ci))
						var others []*Term
						if last {
							for j := i + 1; j < n; j++ {
								others = append(others, Ne(s.C.Elem(Add(s.Off, BV64(j))), c))
							}
						} else {
							for j := uint64(0); j < i; j++ {
								others = append(others, Ne(s.C.Elem(Add(s.Off, BV64(j))), c))
							}
						}
						st.Assume(Implies(And(append(others, ci)...), Eq(r, BV64(i))))
					}
					st.Assume(Implies(And(none...), Eq(r, BVC(64, ^uint64(0)))))
				}
			} else {
				st.Assume(And(SLe(BVC(64, ^uint64(0)), r), SLt(r, Ite(Eq(s.Len, BV64(0)), BV64(1), s.Len))))
				fx.Cx.Note("strings.Index/LastIndex with a multi-character separator: result only range-constrained")
			}
			k(st, Scalar{r})
		}
	}
	// TrimSuffix / TrimPrefix / HasSuffix / HasPrefix with an affix of constant length: exact
	affix := func(suffix, trim bool) Intrinsic {
		return func(fx *FnExec, fr *Frame, call *ssa.CallCommon, args []Value, st *State, site string, k func(*State, Value)) {
			s := args[0].(StrV)
			a := args[1].(StrV)
			if !a.Len.IsConst() || a.Len.Val > 16 {
				panic(Unsupported{"strings affix function with an affix of symbolic length"})
			}
			n := a.Len.Val
			cs := []*Term{ULe(BV64(n), s.Len)}
			for i := uint64(0); i < n; i++ {
				pos := Add(s.Off, BV64(i))
				if suffix {
					pos = Add(s.Off, Add(Sub(s.Len, BV64(n)), BV64(i)))
				}
				cs = append(cs, Eq(s.C.Elem(pos), a.C.Elem(Add(a.Off, BV64(i)))))
			}
			has := And(cs...)
			if !trim {
				k(st, Scalar{has})
				return
			}
			if suffix {
				k(st, StrV{C: s.C, Off: s.Off, Len: Ite(has, Sub(s.Len, BV64(n)), s.Len)})
			} else {
				k(st, StrV{C: s.C, Off: Ite(has, Add(s.Off, BV64(n)), s.Off), Len: Ite(has, Sub(s.Len, BV64(n)), s.Len)})
			}
		}
	}
	in["strings.TrimSuffix"] = affix(true, true)
	in["strings.TrimPrefix"] = affix(false, true)
	in["strings.HasSuffix"] = affix(true, false)
	in["strings.HasPrefix"] = affix(false, false)
	// reflect.DeepEqual on pointers to / values of structs of strings and scalars
	var deepEq func(fx *FnExec, st *State, a, b Value) *Term
	deepEq = func(fx *FnExec, st *State, a, b Value) *Term {
		switch x := a.(type) {
		case IfaceV:
			y, ok := b.(IfaceV)
			if !ok || x.V == nil || y.V == nil || x.Dyn == nil || y.Dyn == nil || !types.Identical(x.Dyn, y.Dyn) {
				panic(Unsupported{"reflect.DeepEqual on interfaces of unknown or different dynamic type"})
			}
			return deepEq(fx, st, x.V, y.V)
		case PtrV:
			y := b.(PtrV)
			if x.Obj == nil || y.Obj == nil {
				return And(x.Nil, y.Nil)
			}
			if x.Obj == y.Obj && pathEq(x.Path, y.Path) {
				return True
			}
			inner := deepEq(fx, st, fx.Load(st, x, nil), fx.Load(st, y, nil))
			return Or(And(x.Nil, y.Nil), And(Not(x.Nil), Not(y.Nil), inner))
		case StructV:
			y := b.(StructV)
			var cs []*Term
			for i := range x.F {
				cs = append(cs, deepEq(fx, st, x.F[i], y.F[i]))
			}
			return And(cs...)
		case StrV:
			return fx.strEq(x, b.(StrV))
		case Scalar:
			return Eq(x.T, b.(Scalar).T)
		}
		panic(Unsupported{fmt.Sprintf("reflect.DeepEqual on %T", a)})
	}
	in["bytes.Equal"] = func(fx *FnExec, fr *Frame, call *ssa.CallCommon, args []Value, st *State, site string, k func(*State, Value)) {
		view := func(v Value) StrV {
			s := v.(SliceV)
			if s.Obj == nil {
				return StrV{C: CZero{8}, Off: BV64(0), Len: BV64(0)}
			}
			a := fx.arrayOf(st, s.Obj, s.Path)
			return StrV{C: a.C, Off: s.Off, Len: s.Len}
		}
		a, b := view(args[0]), view(args[1])
		if !(a.Len.IsConst() && a.Len.Val <= 64) && !(b.Len.IsConst() && b.Len.Val <= 64) {
			panic(Unsupported{"bytes.Equal on two slices of symbolic length"})
		}
		k(st, Scalar{fx.strEq(a, b)})
	}
	in["reflect.DeepEqual"] = func(fx *FnExec, fr *Frame, call *ssa.CallCommon, args []Value, st *State, site string, k func(*State, Value)) {
		k(st, Scalar{deepEq(fx, st, args[0], args[1])})
	}
	in["strings.Index"] = idx(false)
	in["strings.LastIndex"] = idx(true)
	in["strings.Split"] = func(fx *FnExec, fr *Frame, call *ssa.CallCommon, args []Value, st *State, site string, k func(*State, Value)) {
		if parts, ok := fx.splitExact(st, args[0].(StrV), args[1].(StrV)); ok {
			o := fx.Cx.NewObj("strings.Split", types.NewSlice(types.Typ[types.String]), ProvFresh)
			es := make([]Value, len(parts))
			for i, p := range parts {
				es[i] = p
			}
			st.Heap[o] = ArrS{es}
			n := BV64(uint64(len(parts)))
			k(st, SliceV{Nil: False, Obj: o, Off: BV64(0), Len: n, Cap: n})
			return
		}
		n := fx.Cx.Fresh("split.n", BV(64))
		s := args[0].(StrV)
		st.Assume(And(ULe(BV64(1), n), ULe(n, Add(s.Len, BV64(1)))))
		o := fx.Cx.NewObj("strings.Split", types.NewSlice(types.Typ[types.String]), ProvFresh)
		st.Heap[o] = fx.Cx.NewArrU(types.Typ[types.String], n)
		fx.Cx.Note("strings.Split: result has 1..len+1 parts of unknown content")
		k(st, SliceV{Nil: False, Obj: o, Off: BV64(0), Len: n, Cap: n})
	}
	itoa := func(fx *FnExec, fr *Frame, call *ssa.CallCommon, args []Value, st *State, site string, k func(*State, Value)) {
		v := args[0].(Scalar).T
		if n, ok := narrow(v); ok {
			k(st, decimalStr(n, 0))
			return
		}
		s := fx.freshString(st, "itoa")
		st.Assume(And(ULe(BV64(1), s.Len), ULe(s.Len, BV64(20))))
		fx.Cx.Note("strconv.Itoa/FormatUint of an integer wider than 16 bits: digits abstracted (length 1..20)")
		k(st, s)
	}
	in["strconv.Itoa"] = itoa
	in["strconv.FormatUint"] = itoa
	in["strconv.Atoi"] = func(fx *FnExec, fr *Frame, call *ssa.CallCommon, args []Value, st *State, site string, k func(*State, Value)) {
		s := args[0].(StrV)
		if s.Len.IsConst() && s.Len.Val == 1 {
			c := s.C.Elem(s.Off)
			ok := isDigit(c)
			val := Ite(ok, ZExt(64, Sub(c, BVC(8, '0'))), BV64(0))
			k(st, TupleV{[]Value{Scalar{val}, ErrV{Ite(ok, BVC(8, ErrNil), BVC(8, ErrOther))}}})
			return
		}
		// string(byte >= 0x80) has length 2..4 and is never a number
		v := fx.Cx.Fresh("atoi", BV(64))
		e := fx.Cx.Fresh("atoi.err", Bool)
		st.Assume(Implies(Eq(s.Len, BV64(0)), e))
		if s.Len.IsConst() && s.Len.Val <= 8 {
			// all characters must be digits (sign allowed in front)
			var cs []*Term
			for i := uint64(0); i < s.Len.Val; i++ {
				c := s.C.Elem(Add(s.Off, BV64(i)))
				d := isDigit(c)
				if i == 0 && s.Len.Val > 1 {
					d = Or(d, Eq(c, BVC(8, '+')), Eq(c, BVC(8, '-')))
				}
				cs = append(cs, d)
			}
			st.Assume(Implies(Not(e), And(cs...)))
		} else if !s.Len.IsConst() {
			// first character of a successful parse is a digit or sign
			c := s.C.Elem(s.Off)
			st.Assume(Implies(Not(e), Or(isDigit(c), Eq(c, BVC(8, '+')), Eq(c, BVC(8, '-')))))
			st.Assume(Implies(And(Not(e), Eq(s.Len, BV64(1))), And(isDigit(c), Eq(v, ZExt(64, Sub(c, BVC(8, '0')))))))
			// a one-character string parses exactly when the character is a digit
			st.Assume(Implies(And(Eq(s.Len, BV64(1)), isDigit(c)), Not(e)))
		}
		fx.Cx.Note("strconv.Atoi on strings longer than one character: value abstracted")
		k(st, TupleV{[]Value{Scalar{Ite(e, BV64(0), v)}, ErrV{Ite(e, BVC(8, ErrOther), BVC(8, ErrNil))}}})
	}
	in["strconv.ParseUint"] = func(fx *FnExec, fr *Frame, call *ssa.CallCommon, args []Value, st *State, site string, k func(*State, Value)) {
		s := args[0].(StrV)
		base := args[1].(Scalar).T
		bits := args[2].(Scalar).T
		if s.Len.IsConst() && s.Len.Val >= 1 && s.Len.Val <= 9 && base.IsConst() && base.Val == 10 && bits.IsConst() && bits.Val > 0 && bits.Val <= 32 {
			// exact: all characters digits and the value fits
			val := BV64(0)
			okc := True
			for i := uint64(0); i < s.Len.Val; i++ {
				c := s.C.Elem(Add(s.Off, BV64(i)))
				okc = And(okc, isDigit(c))
				val = Add(Mul(val, BV64(10)), ZExt(64, Sub(c, BVC(8, '0'))))
			}
			lim := BV64(uint64(1)<<bits.Val - 1)
			okc = And(okc, ULe(val, lim))
			// on range error ParseUint returns the maximum value; on syntax error 0
			k(st, TupleV{[]Value{Scalar{Ite(okc, val, BV64(0))}, ErrV{Ite(okc, BVC(8, ErrNil), BVC(8, ErrOther))}}})
			if !okc.IsTrue() {
				fx.Cx.Note("strconv.ParseUint: the value returned together with an error is modelled as 0")
			}
			return
		}
		v := fx.Cx.Fresh("parseuint", BV(64))
		e := fx.Cx.Fresh("parseuint.err", Bool)
		if bits.IsConst() && bits.Val > 0 && bits.Val < 64 {
			st.Assume(Implies(Not(e), ULt(v, BV64(uint64(1)<<bits.Val))))
		}
		fx.Cx.Note("strconv.ParseUint on a string of unknown shape: value abstracted, constrained to the bit size on success")
		k(st, TupleV{[]Value{Scalar{v}, ErrV{Ite(e, BVC(8, ErrOther), BVC(8, ErrNil))}}})
	}
	in["strconv.ParseInt"] = func(fx *FnExec, fr *Frame, call *ssa.CallCommon, args []Value, st *State, site string, k func(*State, Value)) {
		v := fx.Cx.Fresh("parseint", BV(64))
		e := fx.Cx.Fresh("parseint.err", Bool)
		bits := args[2].(Scalar).T
		if bits.IsConst() && bits.Val > 0 && bits.Val < 64 {
			lim := uint64(1) << (bits.Val - 1)
			st.Assume(Implies(Not(e), And(SLe(BVC(64, -lim), v), SLt(v, BVC(64, lim)))))
		}
		fx.Cx.Note("strconv.ParseInt: value abstracted, constrained to the bit size on success")
		k(st, TupleV{[]Value{Scalar{v}, ErrV{Ite(e, BVC(8, ErrOther), BVC(8, ErrNil))}}})
	}
	// ---- time ----
	opaqueRet := func(name string) Intrinsic {
		return func(fx *FnExec, fr *Frame, call *ssa.CallCommon, args []Value, st *State, site string, k func(*State, Value)) {
			res := call.Signature().Results()
			if res.Len() == 1 {
				k(st, Opaque{Name: name, T: res.At(0).Type()})
				return
			}
			k(st, nil)
		}
	}
	in["time.Date"] = opaqueRet("time.Date")
	in["time.FixedZone"] = func(fx *FnExec, fr *Frame, call *ssa.CallCommon, args []Value, st *State, site string, k func(*State, Value)) {
		k(st, Opaque{Name: "time.FixedZone", T: call.Signature().Results().At(0).Type()})
	}
	rng := func(lo, hi int64) Intrinsic {
		return func(fx *FnExec, fr *Frame, call *ssa.CallCommon, args []Value, st *State, site string, k func(*State, Value)) {
			v := fx.Cx.Fresh("time."+call.StaticCallee().Name(), BV(64))
			st.Assume(And(SLe(BVC(64, uint64(lo)), v), SLe(v, BVC(64, uint64(hi)))))
			k(st, Scalar{v})
		}
	}
	in["(time.Time).Year"] = rng(-1<<40, 1<<40)
	in["(time.Time).Month"] = rng(1, 12)
	in["(time.Time).Day"] = rng(1, 31)
	in["(time.Time).Hour"] = rng(0, 23)
	in["(time.Time).Minute"] = rng(0, 59)
	in["(time.Time).Second"] = rng(0, 59)
	in["(time.Time).IsDST"] = func(fx *FnExec, fr *Frame, call *ssa.CallCommon, args []Value, st *State, site string, k func(*State, Value)) {
		k(st, Scalar{fx.Cx.Fresh("isdst", Bool)})
	}
	in["(time.Time).Zone"] = func(fx *FnExec, fr *Frame, call *ssa.CallCommon, args []Value, st *State, site string, k func(*State, Value)) {
		off := fx.Cx.Fresh("zone.offset", BV(64))
		st.Assume(And(SLe(BVC(64, uint64(^uint64(0)-86400*2+1)), off), SLe(off, BV64(86400*2))))
		k(st, TupleV{[]Value{fx.freshString(st, "zone.name"), Scalar{off}}})
	}
	// ---- net.IP ----
	in["(net.IP).To4"] = func(fx *FnExec, fr *Frame, call *ssa.CallCommon, args []Value, st *State, site string, k func(*State, Value)) {
		ip := args[0].(SliceV)
		is4 := Eq(ip.Len, BV64(4))
		c := fx.sliceContent(st, ip)
		var pre []*Term
		for i := 0; i < 12; i++ {
			want := uint64(0)
			if i >= 10 {
				want = 0xff
			}
			pre = append(pre, Eq(c.Elem(Add(ip.Off, BV64(uint64(i)))), BVC(8, want)))
		}
		is16 := And(append([]*Term{Eq(ip.Len, BV64(16))}, pre...)...)
		some := Or(is4, is16)
		off := Ite(is4, ip.Off, Add(ip.Off, BV64(12)))
		k(st, SliceV{Nil: Not(some), Obj: ip.Obj, Path: ip.Path, Off: off, Len: Ite(some, BV64(4), BV64(0)), Cap: Ite(some, BV64(4), BV64(0))})
	}
	in["(net.IP).To16"] = func(fx *FnExec, fr *Frame, call *ssa.CallCommon, args []Value, st *State, site string, k func(*State, Value)) {
		ip := args[0].(SliceV)
		is4 := Eq(ip.Len, BV64(4))
		is16 := Eq(ip.Len, BV64(16))
		// 4-octet input is converted into a fresh 16-octet slice
		c := fx.sliceContent(st, ip)
		e := make([]*Term, 16)
		for i := range e {
			switch {
			case i < 10:
				e[i] = BVC(8, 0)
			case i < 12:
				e[i] = BVC(8, 0xff)
			default:
				e[i] = c.Elem(Add(ip.Off, BV64(uint64(i-12))))
			}
		}
		o := fx.Cx.NewObj("net.IPv4", types.NewSlice(types.Typ[types.Uint8]), ProvFresh)
		st.Heap[o] = ArrV{EW: 8, Len: BV64(16), C: CVec{E: e, W: 8}}
		s4 := st.Clone()
		s4.Assume(is4)
		if !s4.Dead {
			k(s4, SliceV{Nil: False, Obj: o, Off: BV64(0), Len: BV64(16), Cap: BV64(16)})
		}
		st.Assume(Not(is4))
		if !st.Dead {
			k(st, SliceV{Nil: Not(is16), Obj: ip.Obj, Path: ip.Path, Off: ip.Off, Len: Ite(is16, BV64(16), BV64(0)), Cap: Ite(is16, ip.Cap, BV64(0))})
		}
	}
	// ---- AES (trusted: the primitive is an uninterpreted function) ----
	in["crypto/aes.NewCipher"] = func(fx *FnExec, fr *Frame, call *ssa.CallCommon, args []Value, st *State, site string, k func(*State, Value)) {
		key := args[0].(SliceV)
		okLen := Or(Eq(key.Len, BV64(16)), Eq(key.Len, BV64(24)), Eq(key.Len, BV64(32)))
		s1 := st.Clone()
		s1.Assume(Not(okLen))
		if !s1.Dead {
			k(s1, TupleV{[]Value{IfaceV{Nil: True}, errV(ErrOther)}})
		}
		st.Assume(okLen)
		if st.Dead {
			return
		}
		if !(key.Len.IsConst() && key.Len.Val == 16) {
			st.Assume(Eq(key.Len, BV64(16)))
			fx.Cx.Note("AES with 24/32-octet keys is not modelled (only AES-128 occurs)")
		}
		c := fx.sliceContent(st, key)
		var data []*Term
		for i := 0; i < 16; i++ {
			data = append(data, c.Elem(Add(key.Off, BV64(uint64(i)))))
		}
		k(st, TupleV{[]Value{IfaceV{Nil: False, V: Opaque{Name: "aes.Block", Data: data}}, errV(ErrNil)}})
	}
	in["crypto/cipher.NewCTR"] = func(fx *FnExec, fr *Frame, call *ssa.CallCommon, args []Value, st *State, site string, k func(*State, Value)) {
		blk, ok := args[0].(IfaceV)
		if !ok {
			panic(Unsupported{"cipher.NewCTR on unknown block"})
		}
		bo, ok := blk.V.(Opaque)
		if !ok || len(bo.Data) != 16 {
			panic(Unsupported{"cipher.NewCTR on unknown block"})
		}
		iv := args[1].(SliceV)
		fx.Oblige(st, site+".lib[NewCTR]", "safety.lib", Eq(iv.Len, BV64(16)), "", "cipher.NewCTR panics unless len(iv) == block size")
		st.Assume(Eq(iv.Len, BV64(16)))
		if st.Dead {
			return
		}
		c := fx.sliceContent(st, iv)
		data := append([]*Term(nil), bo.Data...)
		for i := 0; i < 16; i++ {
			data = append(data, c.Elem(Add(iv.Off, BV64(uint64(i)))))
		}
		k(st, IfaceV{Nil: False, V: Opaque{Name: "cipher.ctr", Data: data}})
	}
	in["invoke:(crypto/cipher.Stream).XORKeyStream"] = func(fx *FnExec, fr *Frame, call *ssa.CallCommon, args []Value, st *State, site string, k func(*State, Value)) {
		sv, ok := args[0].(IfaceV)
		if !ok {
			panic(Unsupported{"XORKeyStream on unknown stream"})
		}
		so, ok := sv.V.(Opaque)
		if !ok || so.Name != "cipher.ctr" {
			panic(Unsupported{"XORKeyStream on unknown stream"})
		}
		dst := args[1].(SliceV)
		src := args[2].(SliceV)
		fx.Oblige(st, site+".lib[XORKeyStream]", "safety.lib", ULe(src.Len, dst.Len), "", "XORKeyStream panics if dst is shorter than src")
		st.Assume(ULe(src.Len, dst.Len))
		if st.Dead || dst.Obj == nil {
			if !st.Dead {
				k(st, nil)
			}
			return
		}
		sc := fx.sliceContent(st, src)
		da := fx.arrayOf(st, dst.Obj, dst.Path)
		data := so.Data
		ks := CFunc{W: 8, F: func(i *Term) *Term {
			// i indexes the source slice storage; the keystream position is i - src.Off
			pos := Sub(i, src.Off)
			return BXor(sc.Elem(i), App("spec.AESCTR", BV(8), append(append([]*Term(nil), data...), pos)...))
		}}
		if fx.OnStore != nil {
			fx.OnStore(fx, st, dst.Obj, dst.Path, site)
		}
		st.Heap[dst.Obj] = fx.writePath(fx.heapGet(st, dst.Obj), dst.Path, ArrV{EW: 8, Len: da.Len, C: CopyC(da.C, dst.Off, ks, src.Off, src.Len)})
		fx.Cx.Note("a cipher.Stream is used for one XORKeyStream call only (keystream position restarts at 0)")
		k(st, nil)
	}
	in["github.com/aead/cmac.Sum"] = func(fx *FnExec, fr *Frame, call *ssa.CallCommon, args []Value, st *State, site string, k func(*State, Value)) {
		m := args[0].(SliceV)
		blk, ok := args[1].(IfaceV)
		if !ok {
			panic(Unsupported{"cmac.Sum on unknown block"})
		}
		bo, ok := blk.V.(Opaque)
		if !ok || len(bo.Data) != 16 {
			panic(Unsupported{"cmac.Sum on unknown block"})
		}
		ts := args[2].(Scalar).T
		if !ts.IsConst() || ts.Val != 16 {
			panic(Unsupported{"cmac.Sum with tag size other than 16"})
		}
		// the message must have the shape prefix(8 octets) || payload (as NIA2 builds it)
		if m.Obj == nil || !(m.Off.IsConst() && m.Off.Val == 0) {
			panic(Unsupported{"cmac.Sum on a message that is not prefix||payload"})
		}
		cc, ok := fx.sliceContent(st, m).(*CCopy)
		if !ok || !(cc.DOff.IsConst() && cc.DOff.Val == 8) {
			panic(Unsupported{"cmac.Sum on a message that is not prefix||payload"})
		}
		fx.Oblige(st, site+".lib[cmac]", "safety.lib", Eq(m.Len, Add(BV64(8), cc.N)), "", "message is exactly prefix || payload")
		uf := append([]*Term(nil), bo.Data...)
		for i := 0; i < 8; i++ {
			uf = append(uf, cc.B.Elem(BV64(uint64(i))))
		}
		uf = append(uf, contentArray(cc.Src), cc.SOff, cc.N)
		e := make([]*Term, 16)
		for j := range e {
			e[j] = App("spec.EIA2", BV(8), append(append([]*Term(nil), uf...), BV64(uint64(j)))...)
		}
		o := fx.Cx.NewObj("cmac.Sum", types.NewSlice(types.Typ[types.Uint8]), ProvFresh)
		st.Heap[o] = ArrV{EW: 8, Len: BV64(16), C: CVec{E: e, W: 8}}
		fx.AddAlloc(st, BV64(16))
		k(st, TupleV{[]Value{SliceV{Nil: False, Obj: o, Off: BV64(0), Len: BV64(16), Cap: BV64(16)}, errV(ErrNil)}})
	}
	_ = fmt.Sprintf
}

// splitExact models strings.Split exactly when the string has an explicit constant length and, for every position,
// the state decides whether the separator (one constant character) occurs there.
func (fx *FnExec) splitExact(st *State, s, sep StrV) ([]StrV, bool) {
	if !s.Len.IsConst() || !s.Off.IsConst() || s.Len.Val > 64 || !sep.Len.IsConst() || sep.Len.Val != 1 {
		return nil, false
	}
	c := sep.C.Elem(sep.Off)
	if !c.IsConst() {
		return nil, false
	}
	var parts []StrV
	start := uint64(0)
	for i := uint64(0); i < s.Len.Val; i++ {
		e := Eq(s.C.Elem(Add(s.Off, BV64(i))), c)
		is, decided := false, false
		switch {
		case e.IsTrue():
			is, decided = true, true
		case e.IsFalse():
			decided = true
		default:
			for _, p := range st.PC {
				if p == e {
					is, decided = true, true
				}
				if p.Op == "not" && p.Args[0] == e {
					decided = true
				}
			}
		}
		if !decided {
			return nil, false
		}
		if is {
			parts = append(parts, StrV{C: s.C, Off: Add(s.Off, BV64(start)), Len: BV64(i - start)})
			start = i + 1
		}
	}
	parts = append(parts, StrV{C: s.C, Off: Add(s.Off, BV64(start)), Len: BV64(s.Len.Val - start)})
	return parts, true
}
