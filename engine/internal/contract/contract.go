// Package contract: textual contracts (//@ blocks in <pkg>/verif_contracts.go), their parser and evaluator.
package contract

import (
	"fmt"
	"go/ast"
	"go/constant"
	"go/parser"
	"go/token"
	"go/types"
	"os"
	"sort"
	"strconv"
	"strings"
	"sync"

	"golang.org/x/tools/go/ssa"

	. "verif/engine/internal/smt"
	"verif/engine/internal/sym"
)

type LoopC struct {
	Invariants []ast.Expr
	InvSrc     []string
	Decreases  ast.Expr
	Unroll     int
	Bounded    bool
}

type FuncContract struct {
	Key       string // short function name as in sym.FuncName
	File      string
	Line      int
	Recv      string
	Params    []string
	Results   []string
	Requires  []ast.Expr
	ReqSrc    []string
	Ensures   []ast.Expr
	EnsSrc    []string
	Assigns   []ast.Expr
	AssignsOK bool // an assigns clause was given ("assigns nothing" gives empty list)
	Loops     map[int]*LoopC
	Decreases ast.Expr
	Flags     map[string]bool
	Lemmas    []Lemma
	Codec     string
	CodecDir  string
	Fuel      int
	Opaque    map[string]bool
	Recursive map[string]bool
	Fn        *ssa.Function
	Set       *Set
	LenCases  []LenCase

	loopMapOnce sync.Once
	loopMap     map[int]int
}

// LenCase: "lencase x 5 6" — besides the general run (which then assumes len(x) is none of the listed values, or
// more precisely that not every lencase expression has one of its listed values) the function is verified once per
// combination of listed lengths with that length concrete, so that stdlib models that are exact only for strings of
// known length (hex decoding, digit parsing) apply.
type LenCase struct {
	Name string // parameter or parameter.Field as named in the function
	Expr ast.Expr
	Vals []uint64
}

type Lemma struct {
	Name string
	Expr ast.Expr
	Src  string
}

type Macro struct {
	Params []string
	Body   string
}

type Set struct {
	Macros map[string]*Macro
	ByKey  map[string]*FuncContract
	Specs  map[string]*ssa.Function // spec.F functions
	Funcs  map[string]*ssa.Function // all functions of the program by short name
}

func NewSet() *Set {
	return &Set{Macros: map[string]*Macro{}, ByKey: map[string]*FuncContract{}, Specs: map[string]*ssa.Function{}, Funcs: map[string]*ssa.Function{}}
}

// ParseFile reads //@ blocks from a contract file. pkgShort is the package's short path (e.g. "security").
func (s *Set) ParseFile(path, pkgShort string) error {
	data, err := os.ReadFile(path)
	if err != nil {
		return err
	}
	var cur *FuncContract
	for ln, line := range strings.Split(string(data), "\n") {
		t := strings.TrimSpace(line)
		if !strings.HasPrefix(t, "//@") {
			continue
		}
		t = strings.TrimSpace(strings.TrimPrefix(t, "//@"))
		if t == "" {
			continue
		}
		if i := strings.Index(t, " //"); i >= 0 {
			t = strings.TrimSpace(t[:i])
		}
		word, rest := t, ""
		if i := strings.IndexAny(t, " \t"); i >= 0 {
			word, rest = t[:i], strings.TrimSpace(t[i+1:])
		}
		fail := func(e error) error { return fmt.Errorf("%s:%d: %v", path, ln+1, e) }
		if word != "define" && word != "func" && word != "end" {
			rest = s.expand(rest, 0)
		}
		switch word {
		case "define":
			// define Name(p1, p2) := body
			i := strings.Index(rest, ":=")
			lp := strings.Index(rest, "(")
			rp := strings.Index(rest, ")")
			if i < 0 || lp < 0 || rp < lp || rp > i {
				return fail(fmt.Errorf("define Name(params) := expr"))
			}
			var ps []string
			for _, p := range strings.Split(rest[lp+1:rp], ",") {
				if p = strings.TrimSpace(p); p != "" {
					ps = append(ps, p)
				}
			}
			s.Macros[strings.TrimSpace(rest[:lp])] = &Macro{Params: ps, Body: strings.TrimSpace(rest[i+2:])}
		case "func":
			fc, err := parseHeader(rest, pkgShort)
			if err != nil {
				return fail(err)
			}
			fc.File, fc.Line, fc.Set = path, ln+1, s
			cur = fc
			if _, dup := s.ByKey[fc.Key]; dup {
				return fail(fmt.Errorf("duplicate contract for %s", fc.Key))
			}
			s.ByKey[fc.Key] = fc
		case "end":
			cur = nil
		default:
			if cur == nil {
				return fail(fmt.Errorf("clause outside func block: %s", t))
			}
			if err := cur.clause(word, rest); err != nil {
				return fail(err)
			}
		}
	}
	return nil
}

// expand replaces macro calls Name(args) by their bodies (textually, with parameter substitution).
func (s *Set) expand(t string, depth int) string {
	if depth > 8 || len(s.Macros) == 0 {
		return t
	}
	isId := func(c byte) bool {
		return c == '_' || c >= 'a' && c <= 'z' || c >= 'A' && c <= 'Z' || c >= '0' && c <= '9'
	}
	var out strings.Builder
	i := 0
	for i < len(t) {
		if isId(t[i]) && (i == 0 || !isId(t[i-1]) && t[i-1] != '.') {
			j := i
			for j < len(t) && isId(t[j]) {
				j++
			}
			name := t[i:j]
			if m, ok := s.Macros[name]; ok && j < len(t) && t[j] == '(' {
				// balanced args
				d, k := 0, j
				for ; k < len(t); k++ {
					if t[k] == '(' {
						d++
					} else if t[k] == ')' {
						d--
						if d == 0 {
							break
						}
					}
				}
				args := splitTop(t[j+1 : k])
				body := m.Body
				if len(args) == len(m.Params) {
					// simultaneous substitution of whole identifiers
					var b strings.Builder
					x := 0
					for x < len(body) {
						if isId(body[x]) && (x == 0 || !isId(body[x-1]) && body[x-1] != '.') {
							y := x
							for y < len(body) && isId(body[y]) {
								y++
							}
							w := body[x:y]
							rep := w
							for pi, pn := range m.Params {
								if pn == w {
									rep = "(" + strings.TrimSpace(args[pi]) + ")"
								}
							}
							b.WriteString(rep)
							x = y
						} else {
							b.WriteByte(body[x])
							x++
						}
					}
					out.WriteString("(" + s.expand(b.String(), depth+1) + ")")
					i = k + 1
					continue
				}
			}
			out.WriteString(name)
			i = j
			continue
		}
		out.WriteByte(t[i])
		i++
	}
	return out.String()
}

func parseHeader(h, pkgShort string) (*FuncContract, error) {
	src := "package p\nfunc " + h + " {}"
	f, err := parser.ParseFile(token.NewFileSet(), "", src, 0)
	if err != nil {
		return nil, fmt.Errorf("bad contract header %q: %v", h, err)
	}
	fd := f.Decls[0].(*ast.FuncDecl)
	fc := &FuncContract{Loops: map[int]*LoopC{}, Flags: map[string]bool{}}
	names := func(fl *ast.FieldList) []string {
		var out []string
		if fl == nil {
			return nil
		}
		for _, f := range fl.List {
			if len(f.Names) > 0 {
				for _, n := range f.Names {
					out = append(out, n.Name)
				}
			} else if id, ok := f.Type.(*ast.Ident); ok {
				out = append(out, id.Name)
			} else {
				out = append(out, "_")
			}
		}
		return out
	}
	fc.Params = names(fd.Type.Params)
	fc.Results = names(fd.Type.Results)
	name := fd.Name.Name
	if fd.Recv != nil && len(fd.Recv.List) == 1 {
		r := fd.Recv.List[0]
		if len(r.Names) > 0 {
			fc.Recv = r.Names[0].Name
		} else {
			fc.Recv = "recv"
		}
		switch t := r.Type.(type) {
		case *ast.StarExpr:
			fc.Key = fmt.Sprintf("(*%s.%s).%s", pkgShort, t.X.(*ast.Ident).Name, name)
		case *ast.Ident:
			fc.Key = fmt.Sprintf("(%s.%s).%s", pkgShort, t.Name, name)
		default:
			return nil, fmt.Errorf("bad receiver")
		}
	} else {
		fc.Key = pkgShort + "." + name
	}
	return fc, nil
}

func (fc *FuncContract) clause(word, rest string) error {
	pe := func(s string) (ast.Expr, error) {
		e, err := parser.ParseExpr(s)
		if err != nil {
			return nil, fmt.Errorf("cannot parse %q: %v", s, err)
		}
		return e, nil
	}
	switch word {
	case "requires":
		e, err := pe(rest)
		if err != nil {
			return err
		}
		fc.Requires = append(fc.Requires, e)
		fc.ReqSrc = append(fc.ReqSrc, rest)
	case "ensures":
		e, err := pe(rest)
		if err != nil {
			return err
		}
		fc.Ensures = append(fc.Ensures, e)
		fc.EnsSrc = append(fc.EnsSrc, rest)
	case "assigns":
		fc.AssignsOK = true
		if rest == "nothing" {
			return nil
		}
		for _, p := range splitTop(rest) {
			e, err := pe(p)
			if err != nil {
				return err
			}
			fc.Assigns = append(fc.Assigns, e)
		}
	case "decreases":
		e, err := pe(rest)
		if err != nil {
			return err
		}
		fc.Decreases = e
	case "lemma":
		i := strings.Index(rest, ":")
		if i < 0 {
			return fmt.Errorf("lemma needs 'name: expr'")
		}
		e, err := pe(strings.TrimSpace(rest[i+1:]))
		if err != nil {
			return err
		}
		fc.Lemmas = append(fc.Lemmas, Lemma{Name: strings.TrimSpace(rest[:i]), Expr: e, Src: rest[i+1:]})
	case "loop":
		parts := strings.SplitN(rest, " ", 3)
		if len(parts) < 3 {
			return fmt.Errorf("loop clause: loop <k> invariant|decreases|unroll …")
		}
		k, err := strconv.Atoi(parts[0])
		if err != nil {
			return err
		}
		lc := fc.Loops[k]
		if lc == nil {
			lc = &LoopC{}
			fc.Loops[k] = lc
		}
		switch parts[1] {
		case "invariant":
			e, err := pe(parts[2])
			if err != nil {
				return err
			}
			lc.Invariants = append(lc.Invariants, e)
			lc.InvSrc = append(lc.InvSrc, parts[2])
		case "decreases":
			e, err := pe(parts[2])
			if err != nil {
				return err
			}
			lc.Decreases = e
		case "unroll":
			f := strings.Fields(parts[2])
			n, err := strconv.Atoi(f[0])
			if err != nil {
				return err
			}
			lc.Unroll = n
			lc.Bounded = len(f) > 1 && f[1] == "bounded"
		default:
			return fmt.Errorf("unknown loop clause %s", parts[1])
		}
	case "opaque", "recursive":
		// opaque F: spec function F is never unfolded in this contract's clauses.
		// recursive F: a top-level call of F is unfolded once, calls nested inside unfolded bodies stay uninterpreted.
		for _, n := range splitTop(rest) {
			if fc.Opaque == nil {
				fc.Opaque = map[string]bool{}
				fc.Recursive = map[string]bool{}
			}
			fc.Opaque[strings.TrimSpace(n)] = true
			if word == "recursive" {
				fc.Recursive[strings.TrimSpace(n)] = true
			}
		}
	case "lencase":
		f := strings.Fields(rest)
		if len(f) < 2 {
			return fmt.Errorf("lencase <param[.Field]> <len>...")
		}
		e, err := pe("len(" + f[0] + ")")
		if err != nil {
			return err
		}
		lc := LenCase{Name: f[0], Expr: e}
		for _, v := range f[1:] {
			n, err := strconv.ParseUint(v, 10, 32)
			if err != nil {
				return err
			}
			lc.Vals = append(lc.Vals, n)
		}
		fc.LenCases = append(fc.LenCases, lc)
	case "specfuel":
		n, err := strconv.Atoi(rest)
		if err != nil {
			return err
		}
		fc.Fuel = n
	case "codec":
		f := strings.Fields(rest)
		if len(f) != 2 {
			return fmt.Errorf("codec <Message> decode|encode")
		}
		fc.Codec, fc.CodecDir = f[0], f[1]
	case "pure", "inline", "trusted", "nopanic", "lenonly":
		fc.Flags[word] = true
	default:
		return fmt.Errorf("unknown clause %q", word)
	}
	return nil
}

func splitTop(s string) []string {
	var out []string
	depth := 0
	last := 0
	for i, c := range s {
		switch c {
		case '(', '[':
			depth++
		case ')', ']':
			depth--
		case ',':
			if depth == 0 {
				out = append(out, strings.TrimSpace(s[last:i]))
				last = i + 1
			}
		}
	}
	out = append(out, strings.TrimSpace(s[last:]))
	return out
}

// ---------------- evaluation ----------------

// TV: typed value. T == nil with C != nil means untyped constant.
type TV struct {
	V sym.Value
	T types.Type
	C constant.Value
}

type Env struct {
	Fx    *sym.FnExec
	St    *sym.State // current (post) state
	Old   *sym.State // entry state, for old(...)
	Vars  map[string]TV
	Set   *Set
	InOld bool
	Skol  map[string]*Term
	Owner string
	// Assume: the expression is being assumed (hypothesis position): quantified clauses become QFacts of St
	Assume  bool
	guards  []*Term
	noQuant int
	// spec function calls: nested ones and those in assumed clauses stay uninterpreted; a top-level call in a goal
	// is unfolded Fuel levels deep (0 = 1)
	specDepth int
	Fuel      int
	Opaque    map[string]bool
	Recursive map[string]bool
	// Own: the clause belongs to the contract of the function under verification (definitional axioms are added)
	Own   bool
	axOut *[]*Term
}

func (e *Env) addAxiom(t *Term) {
	if t.IsTrue() {
		return
	}
	if e.axOut != nil {
		*e.axOut = append(*e.axOut, t)
		return
	}
	e.St.Assume(t)
}

func (e *Env) state() *sym.State {
	if e.InOld && e.Old != nil {
		return e.Old
	}
	return e.St
}

type evalErr struct{ msg string }

func bad(f string, a ...interface{}) { panic(evalErr{fmt.Sprintf(f, a...)}) }

// Bool evaluates a contract expression to a boolean term.
func (e *Env) Bool(x ast.Expr) (t *Term, err error) {
	defer func() {
		if r := recover(); r != nil {
			switch v := r.(type) {
			case evalErr:
				err = fmt.Errorf("contract expression: %s", v.msg)
			case sym.Unsupported:
				err = fmt.Errorf("contract expression: %s", v.Msg)
			default:
				panic(r)
			}
		}
	}()
	tv := e.eval(x)
	s, ok := tv.V.(sym.Scalar)
	if !ok || s.T.S.K != KBool {
		return nil, fmt.Errorf("contract expression is not boolean")
	}
	return s.T, nil
}

func (e *Env) Eval(x ast.Expr) (tv TV, err error) {
	defer func() {
		if r := recover(); r != nil {
			switch v := r.(type) {
			case evalErr:
				err = fmt.Errorf("contract expression: %s", v.msg)
			case sym.Unsupported:
				err = fmt.Errorf("contract expression: %s", v.Msg)
			default:
				panic(r)
			}
		}
	}()
	return e.eval(x), nil
}

func intType(name string) types.Type {
	if o := types.Universe.Lookup(name); o != nil {
		if tn, ok := o.(*types.TypeName); ok {
			return tn.Type()
		}
	}
	return nil
}

func (e *Env) concretize(tv TV, t types.Type) TV {
	if tv.T != nil || tv.C == nil {
		return tv
	}
	if t == nil {
		t = types.Typ[types.Int]
	}
	if tv.C.Kind() == constant.Bool {
		return TV{V: sym.Scalar{T: BoolC(constant.BoolVal(tv.C))}, T: types.Typ[types.Bool]}
	}
	if tv.C.Kind() == constant.String {
		return TV{V: sym.StrLit(constant.StringVal(tv.C)), T: types.Typ[types.String]}
	}
	w, ok := sym.IsByteLike(t)
	if !ok {
		bad("cannot use constant %s as %s", tv.C, t)
	}
	c := constant.ToInt(tv.C)
	if v, ok := constant.Int64Val(c); ok {
		return TV{V: sym.Scalar{T: BVC(w, uint64(v))}, T: t}
	}
	v, _ := constant.Uint64Val(c)
	return TV{V: sym.Scalar{T: BVC(w, v)}, T: t}
}

func (e *Env) deref(tv TV) TV {
	for {
		p, ok := tv.V.(sym.PtrV)
		if !ok {
			return tv
		}
		pt, ok := tv.T.Underlying().(*types.Pointer)
		if !ok {
			return tv
		}
		if p.Obj == nil {
			// definitely nil here (e.g. an error return): the clause must not depend on the value, so it is unconstrained
			tv = TV{V: e.Fx.SymValue(e.state(), pt.Elem(), "nilderef", 0), T: pt.Elem()}
			continue
		}
		tv = TV{V: e.Fx.Load(e.state(), p, pt.Elem()), T: pt.Elem()}
	}
}

func findField(t types.Type, name string) (idx []int, ft types.Type) {
	st, ok := t.Underlying().(*types.Struct)
	if !ok {
		return nil, nil
	}
	for i := 0; i < st.NumFields(); i++ {
		if st.Field(i).Name() == name {
			return []int{i}, st.Field(i).Type()
		}
	}
	for i := 0; i < st.NumFields(); i++ {
		f := st.Field(i)
		if f.Embedded() {
			ft := f.Type()
			if p, ok := ft.Underlying().(*types.Pointer); ok {
				ft = p.Elem()
			}
			if sub, t2 := findField(ft, name); sub != nil {
				return append([]int{i}, sub...), t2
			}
		}
	}
	return nil, nil
}

func (e *Env) eval(x ast.Expr) TV {
	switch n := x.(type) {
	case *ast.ParenExpr:
		return e.eval(n.X)
	case *ast.BasicLit:
		switch n.Kind {
		case token.INT, token.CHAR:
			return TV{C: constant.MakeFromLiteral(n.Value, n.Kind, 0)}
		case token.STRING:
			return TV{C: constant.MakeFromLiteral(n.Value, n.Kind, 0)}
		}
		bad("literal %s", n.Value)
	case *ast.Ident:
		switch n.Name {
		case "true":
			return TV{V: sym.Scalar{T: True}, T: types.Typ[types.Bool]}
		case "false":
			return TV{V: sym.Scalar{T: False}, T: types.Typ[types.Bool]}
		case "nil":
			return TV{V: nil, T: types.Typ[types.UntypedNil]}
		}
		if v, ok := e.Vars[n.Name]; ok {
			return v
		}
		bad("unknown identifier %s", n.Name)
	case *ast.SelectorExpr:
		if id, ok := n.X.(*ast.Ident); ok && id.Name == "spec" {
			bad("spec.%s used without call", n.Sel.Name)
		}
		base := e.deref(e.eval(n.X))
		idx, ft := findField(base.T, n.Sel.Name)
		if idx == nil {
			bad("no field %s in %s", n.Sel.Name, base.T)
		}
		v := base.V
		t := base.T
		for _, i := range idx {
			// embedded pointer hop
			if p, ok := v.(sym.PtrV); ok {
				tv := e.deref(TV{V: p, T: t})
				v, t = tv.V, tv.T
			}
			sv, ok := v.(sym.StructV)
			if !ok {
				bad("field access on %T", v)
			}
			v = sv.F[i]
			t = t.Underlying().(*types.Struct).Field(i).Type()
		}
		return TV{V: v, T: ft}
	case *ast.StarExpr:
		tv := e.eval(n.X)
		p, ok := tv.V.(sym.PtrV)
		if !ok {
			bad("* of non-pointer")
		}
		pt := tv.T.Underlying().(*types.Pointer)
		return TV{V: e.Fx.Load(e.state(), p, pt.Elem()), T: pt.Elem()}
	case *ast.IndexExpr:
		base := e.deref(e.eval(n.X))
		it := e.concretize(e.eval(n.Index), types.Typ[types.Int])
		is, ok := it.V.(sym.Scalar)
		if !ok {
			bad("index is not an integer")
		}
		var idx *Term
		if sym.IsSigned(it.T) {
			idx = SExt(64, is.T)
		} else {
			idx = ZExt(64, is.T)
		}
		switch b := base.V.(type) {
		case sym.SliceV:
			et := base.T.Underlying().(*types.Slice).Elem()
			if b.Obj == nil {
				// reading a nil slice is outside the meaning of the clause (it is guarded by the surrounding
				// implication); give an unconstrained element
				w, _ := sym.IsByteLike(et)
				if w == 0 {
					return TV{V: e.Fx.SymValue(e.state(), et, "nilelem", 0), T: et}
				}
				return TV{V: sym.Scalar{T: e.Fx.Cx.Fresh("nilelem", BV(w))}, T: et}
			}
			if as, ok := e.Fx.ReadLoc(e.state(), b.Obj, b.Path).(sym.ArrS); ok {
				// element beyond a list of known length: outside the meaning of the clause, unconstrained
				if i := Add(b.Off, idx); i.IsConst() && i.Val >= uint64(len(as.Elems)) {
					return TV{V: e.Fx.SymValue(e.state(), et, "nilelem", 0), T: et}
				}
			}
			p := sym.PtrV{Nil: False, Obj: b.Obj, Path: append(append(sym.Path(nil), b.Path...), sym.PathEl{Field: -1, Index: Add(b.Off, idx)})}
			return TV{V: e.Fx.Load(e.state(), p, et), T: et}
		case sym.ArrV:
			et := base.T.Underlying().(*types.Array).Elem()
			el := b.C.Elem(idx)
			if sym.IsBool(et) {
				return TV{V: sym.Scalar{T: Eq(el, BVC(1, 1))}, T: et}
			}
			return TV{V: sym.Scalar{T: el}, T: et}
		case sym.ArrS:
			et := base.T.Underlying().(*types.Array).Elem()
			if !idx.IsConst() {
				bad("symbolic index into array of composites")
			}
			return TV{V: b.Elems[idx.Val], T: et}
		case sym.StrV:
			return TV{V: sym.Scalar{T: b.C.Elem(Add(b.Off, idx))}, T: types.Typ[types.Uint8]}
		}
		bad("index on %T", base.V)
	case *ast.UnaryExpr:
		if n.Op == token.NOT {
			e.noQuant++
		}
		a := e.eval(n.X)
		if n.Op == token.NOT {
			e.noQuant--
		}
		if a.T == nil && a.C != nil {
			switch n.Op {
			case token.SUB:
				return TV{C: constant.UnaryOp(token.SUB, a.C, 0)}
			case token.NOT:
				return TV{C: constant.UnaryOp(token.NOT, a.C, 0)}
			case token.XOR:
				bad("^ on untyped constant: give it a type, e.g. ^uint8(3)")
			}
		}
		s, ok := a.V.(sym.Scalar)
		if !ok {
			bad("unary %s on %T", n.Op, a.V)
		}
		switch n.Op {
		case token.NOT:
			return TV{V: sym.Scalar{T: Not(s.T)}, T: a.T}
		case token.SUB:
			return TV{V: sym.Scalar{T: Neg(s.T)}, T: a.T}
		case token.XOR:
			return TV{V: sym.Scalar{T: BNot(s.T)}, T: a.T}
		}
		bad("unary %s", n.Op)
	case *ast.BinaryExpr:
		return e.binary(n)
	case *ast.CallExpr:
		return e.call(n)
	}
	bad("unsupported expression %T", x)
	return TV{}
}

func (e *Env) binary(n *ast.BinaryExpr) TV {
	// short-circuit logical ops evaluate both sides (pure)
	a := e.eval(n.X)
	b := e.eval(n.Y)
	isShift := n.Op == token.SHL || n.Op == token.SHR
	if a.T == nil && a.C != nil && b.T == nil && b.C != nil {
		switch n.Op {
		case token.EQL, token.NEQ, token.LSS, token.LEQ, token.GTR, token.GEQ:
			return TV{C: constant.MakeBool(constant.Compare(a.C, n.Op, b.C))}
		case token.SHL, token.SHR:
			s, _ := constant.Uint64Val(b.C)
			return TV{C: constant.Shift(a.C, n.Op, uint(s))}
		case token.QUO:
			return TV{C: constant.BinaryOp(a.C, token.QUO_ASSIGN, b.C)}
		case token.LAND, token.LOR:
			return TV{C: constant.BinaryOp(a.C, n.Op, b.C)}
		}
		return TV{C: constant.BinaryOp(a.C, n.Op, b.C)}
	}
	// nil comparisons
	if isNilTV(a) || isNilTV(b) {
		o := a
		if isNilTV(a) {
			o = b
		}
		var isnil *Term
		switch v := o.V.(type) {
		case sym.PtrV:
			isnil = v.Nil
		case sym.SliceV:
			isnil = v.Nil
		case sym.ErrV:
			isnil = Eq(v.Code, BVC(8, 0))
		case sym.MapV:
			isnil = v.Nil
		case sym.IfaceV:
			isnil = v.Nil
		default:
			bad("nil comparison on %T", o.V)
		}
		if n.Op == token.NEQ {
			isnil = Not(isnil)
		}
		return TV{V: sym.Scalar{T: isnil}, T: types.Typ[types.Bool]}
	}
	if isShift {
		a = e.concretize(a, types.Typ[types.Int])
		b = e.concretize(b, types.Typ[types.Uint])
	} else {
		if a.T == nil {
			a = e.concretize(a, b.T)
		}
		if b.T == nil {
			b = e.concretize(b, a.T)
		}
	}
	op := n.Op
	if op == token.LAND {
		op = token.AND
	}
	if op == token.LOR {
		op = token.OR
	}
	// width sanity
	if as, ok := a.V.(sym.Scalar); ok && !isShift {
		if bs, ok := b.V.(sym.Scalar); ok && as.T.S != bs.T.S {
			bad("operands of %s have different types (%s vs %s): add a conversion", n.Op, a.T, b.T)
		}
	}
	if n.Op == token.EQL || n.Op == token.NEQ {
		switch a.V.(type) {
		case sym.StructV, sym.ArrV, sym.ArrS:
			eq := e.Fx.EqV(a.V, b.V)
			if n.Op == token.NEQ {
				eq = Not(eq)
			}
			return TV{V: sym.Scalar{T: eq}, T: types.Typ[types.Bool]}
		}
	}
	r := e.Fx.BinOpV(nil, e.state(), nil, op, a.V, b.V, a.T, b.T)
	rt := a.T
	switch n.Op {
	case token.EQL, token.NEQ, token.LSS, token.LEQ, token.GTR, token.GEQ, token.LAND, token.LOR:
		rt = types.Typ[types.Bool]
	}
	return TV{V: r, T: rt}
}

// uninterpreted: spec functions whose body is just panic("uninterpreted") are never unfolded.
func uninterpreted(fn *ssa.Function) bool {
	if len(fn.Blocks) == 0 {
		return true
	}
	for _, in := range fn.Blocks[0].Instrs {
		if _, ok := in.(*ssa.Panic); ok {
			return true
		}
	}
	return false
}

func isNilTV(t TV) bool {
	b, ok := t.T.(*types.Basic)
	return ok && b.Kind() == types.UntypedNil
}

func (e *Env) call(n *ast.CallExpr) TV {
	// spec.F(...)
	if sel, ok := n.Fun.(*ast.SelectorExpr); ok {
		if id, ok := sel.X.(*ast.Ident); ok && id.Name == "spec" {
			fn := e.Set.Specs[sel.Sel.Name]
			if fn == nil {
				bad("unknown spec function %s", sel.Sel.Name)
			}
			var args []sym.Value
			e.specDepth++
			for i, a := range n.Args {
				tv := e.concretize(e.eval(a), fn.Params[i].Type())
				tv = e.deref(tv)
				tv = e.coerce(tv, fn.Params[i].Type())
				args = append(args, tv.V)
			}
			e.specDepth--
			// The call denotes the uninterpreted application spec.F(args). In the clauses of the function under
			// verification a top-level call additionally contributes the definitional axiom
			// spec.F(args) == <body of F unfolded (nested calls per fuel / opaque list)>; clauses of callee contracts
			// used at call sites stay uninterpreted.
			v := e.Fx.OpaqueApplySt(e.state(), fn, args)
			if e.Own && !uninterpreted(fn) && (!e.Opaque[sel.Sel.Name] || e.Recursive[sel.Sel.Name]) {
				fuel := e.Fuel
				if fuel == 0 {
					fuel = 1
				}
				// nested calls of `recursive` functions left uninterpreted get their own one-level unfolding
				var pending []func()
				un := e.Fx.EvalPureCB(fn, args, e.state(), fuel, e.Opaque, func(f2 *ssa.Function, a2 []sym.Value, r2 sym.Value) {
					if e.Recursive[f2.Name()] {
						pending = append(pending, func() {
							u2 := e.Fx.EvalPure(f2, a2, e.state(), fuel, e.Opaque)
							e.addAxiom(e.Fx.EqV(r2, u2))
						})
					}
				})
				e.addAxiom(e.Fx.EqV(v, un))
				for _, p := range pending {
					p()
				}
			}
			var rt types.Type
			if r := fn.Signature.Results(); r.Len() == 1 {
				rt = r.At(0).Type()
			} else {
				rt = r
			}
			return TV{V: v, T: rt}
		}
	}
	id, ok := n.Fun.(*ast.Ident)
	if !ok {
		bad("unsupported call in contract")
	}
	switch id.Name {
	case "old":
		sv := e.InOld
		e.InOld = true
		r := e.eval(n.Args[0])
		e.InOld = sv
		return r
	case "implies":
		sa := e.Assume
		e.Assume = false // no quantifiers in negative position
		e.noQuant++
		a := e.boolT(n.Args[0])
		e.noQuant--
		e.Assume = sa
		e.guards = append(e.guards, a)
		b := e.boolT(n.Args[1])
		e.guards = e.guards[:len(e.guards)-1]
		return TV{V: sym.Scalar{T: Implies(a, b)}, T: types.Typ[types.Bool]}
	case "ite":
		c := e.boolT(n.Args[0])
		a := e.eval(n.Args[1])
		b := e.eval(n.Args[2])
		if a.T == nil {
			a = e.concretize(a, b.T)
		}
		if b.T == nil {
			b = e.concretize(b, a.T)
		}
		return TV{V: sym.IteV(c, a.V, b.V), T: a.T}
	case "len", "cap":
		a := e.deref(e.eval(n.Args[0]))
		switch v := a.V.(type) {
		case sym.SliceV:
			if id.Name == "cap" {
				return TV{V: sym.Scalar{T: v.Cap}, T: types.Typ[types.Int]}
			}
			return TV{V: sym.Scalar{T: v.Len}, T: types.Typ[types.Int]}
		case sym.StrV:
			return TV{V: sym.Scalar{T: v.Len}, T: types.Typ[types.Int]}
		case sym.ArrV:
			return TV{V: sym.Scalar{T: v.Len}, T: types.Typ[types.Int]}
		case sym.ArrS:
			return TV{V: sym.Scalar{T: BVC(64, uint64(len(v.Elems)))}, T: types.Typ[types.Int]}
		}
		bad("len of %T", a.V)
	case "arr":
		// arr(x, n): the first n elements of slice/array/string x as an array value
		a := e.deref(e.eval(n.Args[0]))
		nt := e.eval(n.Args[1])
		if nt.C == nil {
			bad("arr: length must be a constant")
		}
		cnt, _ := constant.Int64Val(constant.ToInt(nt.C))
		var c sym.Content
		var off *Term
		var et types.Type = types.Typ[types.Uint8]
		switch v := a.V.(type) {
		case sym.SliceV:
			if v.Obj == nil {
				bad("arr of nil slice")
			}
			arrv := e.Fx.Load(e.state(), sym.PtrV{Nil: False, Obj: v.Obj, Path: v.Path}, nil).(sym.ArrV)
			c, off = arrv.C, v.Off
			et = a.T.Underlying().(*types.Slice).Elem()
		case sym.ArrV:
			c, off = v.C, BVC(64, 0)
			et = a.T.Underlying().(*types.Array).Elem()
		case sym.StrV:
			c, off = v.C, v.Off
		default:
			bad("arr of %T", a.V)
		}
		es := make([]*Term, cnt)
		for i := range es {
			es[i] = c.Elem(Add(off, BVC(64, uint64(i))))
		}
		w, _ := sym.IsByteLike(et)
		return TV{V: sym.ArrV{EW: w, Len: BVC(64, uint64(cnt)), C: sym.CVec{E: es, W: w}}, T: types.NewArray(et, cnt)}
	case "has":
		// has(m, k): key k is present in map m
		m := e.deref(e.eval(n.Args[0]))
		kv := e.concretize(e.eval(n.Args[1]), types.Typ[types.Int64])
		mv, ok := m.V.(sym.MapV)
		if !ok {
			bad("has of %T", m.V)
		}
		if mv.Obj == nil {
			return TV{V: sym.Scalar{T: False}, T: types.Typ[types.Bool]}
		}
		mc, ok := e.state().Heap[mv.Obj].(sym.MapContent)
		if !ok {
			bad("has: map content missing")
		}
		ks := kv.V.(sym.Scalar).T
		if sym.IsSigned(kv.T) {
			ks = SExt(64, ks)
		} else {
			ks = ZExt(64, ks)
		}
		return TV{V: sym.Scalar{T: And(Not(mv.Nil), Eq(Select(mc.Present, ks), BVC(1, 1)))}, T: types.Typ[types.Bool]}
	case "forallk":
		// forallk(k, body): for all 64-bit integers k
		iv := n.Args[0].(*ast.Ident).Name
		key := fmt.Sprintf("sk!%s!%s!%d", e.Owner, iv, n.Pos())
		sk := e.Skol[key]
		if sk == nil {
			sk = e.Fx.Cx.Fresh("sk."+iv, BV(64))
			if e.Skol != nil {
				e.Skol[key] = sk
			}
		}
		if e.noQuant > 0 {
			bad("quantifier in a negative position (left of implies / under !)")
		}
		if e.Assume {
			e.registerQ(iv, types.Typ[types.Int64], nil, nil, n.Args[1])
			return TV{V: sym.Scalar{T: True}, T: types.Typ[types.Bool]}
		}
		saved, had := e.Vars[iv]
		e.Vars[iv] = TV{V: sym.Scalar{T: sk}, T: types.Typ[types.Int64]}
		body := e.boolT(n.Args[1])
		if had {
			e.Vars[iv] = saved
		} else {
			delete(e.Vars, iv)
		}
		return TV{V: sym.Scalar{T: body}, T: types.Typ[types.Bool]}
	case "ghost_alloc":
		// octets allocated so far by the function under check (ghost counter)
		g, ok := e.state().Ghost["alloc"]
		if !ok {
			g = BVC(64, 0)
		}
		return TV{V: sym.Scalar{T: g}, T: types.Typ[types.Int]}
	case "buflen":
		// unread octets of a *bytes.Buffer / *bytes.Reader value
		a := e.deref(e.eval(n.Args[0]))
		sv, ok := a.V.(sym.StructV)
		if !ok || len(sv.F) < 2 {
			bad("buflen of %T", a.V)
		}
		sl, ok1 := sv.F[0].(sym.SliceV)
		off, ok2 := sv.F[1].(sym.Scalar)
		if !ok1 || !ok2 {
			bad("buflen: not a buffer")
		}
		return TV{V: sym.Scalar{T: Sub(sl.Len, off.T)}, T: types.Typ[types.Int]}
	case "forall":
		// forall(i, lo, hi, body): goal-position only; skolemised.
		iv := n.Args[0].(*ast.Ident).Name
		lo := e.concretize(e.eval(n.Args[1]), types.Typ[types.Int]).V.(sym.Scalar).T
		hi := e.concretize(e.eval(n.Args[2]), types.Typ[types.Int]).V.(sym.Scalar).T
		key := fmt.Sprintf("sk!%s!%s!%d", e.Owner, iv, n.Pos())
		sk := e.Skol[key]
		if sk == nil {
			sk = e.Fx.Cx.Fresh("sk."+iv, BV(64))
			if e.Skol != nil {
				e.Skol[key] = sk
			}
		}
		if (e.noQuant > 0 || e.Assume) && lo.IsConst() && hi.IsConst() && int64(hi.Val)-int64(lo.Val) <= 64 {
			// small constant range used as a hypothesis: expanded exactly into a conjunction
			saved, had := e.Vars[iv]
			var cs []*Term
			for c := int64(lo.Val); c < int64(hi.Val); c++ {
				e.Vars[iv] = TV{V: sym.Scalar{T: BVC(64, uint64(c))}, T: types.Typ[types.Int]}
				cs = append(cs, e.boolT(n.Args[3]))
			}
			if had {
				e.Vars[iv] = saved
			} else {
				delete(e.Vars, iv)
			}
			return TV{V: sym.Scalar{T: And(cs...)}, T: types.Typ[types.Bool]}
		}
		if e.noQuant > 0 {
			bad("quantifier in a negative position (left of implies / under !)")
		}
		if e.Assume {
			e.registerQ(iv, types.Typ[types.Int], lo, hi, n.Args[3])
			return TV{V: sym.Scalar{T: True}, T: types.Typ[types.Bool]}
		}
		saved, had := e.Vars[iv]
		e.Vars[iv] = TV{V: sym.Scalar{T: sk}, T: types.Typ[types.Int]}
		body := e.boolT(n.Args[3])
		if had {
			e.Vars[iv] = saved
		} else {
			delete(e.Vars, iv)
		}
		return TV{V: sym.Scalar{T: Implies(And(SLe(lo, sk), SLt(sk, hi)), body)}, T: types.Typ[types.Bool]}
	case "eqmem":
		// eqmem(a, b): deep equality of two values (arrays compared at a skolem index)
		a := e.deref(e.eval(n.Args[0]))
		b := e.deref(e.eval(n.Args[1]))
		return TV{V: sym.Scalar{T: e.Fx.EqV(e.sliceContent(a), e.sliceContent(b))}, T: types.Typ[types.Bool]}
	case "fresh":
		// fresh(x): x's backing memory was allocated in this call
		a := e.eval(n.Args[0])
		var o *sym.Object
		switch v := a.V.(type) {
		case sym.SliceV:
			o = v.Obj
		case sym.PtrV:
			o = v.Obj
		default:
			bad("fresh of %T", a.V)
		}
		ok := o == nil || o.Prov == sym.ProvFresh
		if o != nil && e.Old != nil {
			if _, existed := e.Old.Heap[o]; existed {
				ok = false
			}
		}
		return TV{V: sym.Scalar{T: BoolC(ok)}, T: types.Typ[types.Bool]}
	}
	// conversions
	if t := intType(id.Name); t != nil {
		a := e.eval(n.Args[0])
		if a.T == nil {
			return e.concretize(a, t)
		}
		return TV{V: e.Fx.ConvertV(e.state(), a.V, a.T, t), T: t}
	}
	bad("unknown function %s in contract", id.Name)
	return TV{}
}

// registerQ records `forall iv in [lo,hi): body` (under the current guards) as a quantified hypothesis of e.St.
func (e *Env) registerQ(iv string, t types.Type, lo, hi *Term, body ast.Expr) {
	vars := map[string]TV{}
	for k, v := range e.Vars {
		vars[k] = v
	}
	snap := &Env{Fx: e.Fx, St: e.St.Clone(), Old: e.Old, Vars: vars, Set: e.Set, InOld: e.InOld, Skol: e.Skol, Owner: e.Owner, Assume: true, Fuel: e.Fuel, Opaque: e.Opaque, Recursive: e.Recursive, Own: e.Own}
	if e.InOld && e.Old != nil {
		snap.St = e.Old
	}
	guards := append([]*Term(nil), e.guards...)
	e.St.Quants = append(e.St.Quants, &sym.QFact{Inst: func(k *Term) *Term {
		local := *snap
		var ax []*Term
		local.axOut = &ax
		lv := map[string]TV{}
		for a, b := range snap.Vars {
			lv[a] = b
		}
		lv[iv] = TV{V: sym.Scalar{T: k}, T: t}
		local.Vars = lv
		bt, err := local.Bool(body)
		if err != nil {
			return nil
		}
		g := append([]*Term(nil), guards...)
		if lo != nil {
			g = append(g, SLe(lo, k), SLt(k, hi))
		}
		return And(And(ax...), Implies(And(g...), bt))
	}})
}

// sliceContent turns a slice into a value-level string-like view so that EqV compares contents.
func (e *Env) sliceContent(a TV) sym.Value {
	if s, ok := a.V.(sym.SliceV); ok {
		if s.Obj == nil {
			return sym.StrV{C: sym.CZero{W: 8}, Off: BVC(64, 0), Len: BVC(64, 0)}
		}
		arr := e.Fx.Load(e.state(), sym.PtrV{Nil: False, Obj: s.Obj, Path: s.Path}, nil).(sym.ArrV)
		return sym.StrV{C: arr.C, Off: s.Off, Len: s.Len}
	}
	return a.V
}

func (e *Env) coerce(tv TV, t types.Type) TV {
	if s, ok := tv.V.(sym.Scalar); ok && s.T.S.K == KBV {
		if w, ok := sym.IsByteLike(t); ok && w != s.T.S.W {
			bad("argument width mismatch: have %s want %s", tv.T, t)
		}
	}
	return tv
}

func (e *Env) boolT(x ast.Expr) *Term {
	tv := e.eval(x)
	if tv.T == nil && tv.C != nil && tv.C.Kind() == constant.Bool {
		return BoolC(constant.BoolVal(tv.C))
	}
	s, ok := tv.V.(sym.Scalar)
	if !ok || s.T.S.K != KBool {
		bad("expected boolean")
	}
	return s.T
}

// ---------------- binding to functions ----------------

// Bind resolves contracts to SSA functions. Returns keys that did not resolve.
func (s *Set) Bind() []string {
	var missing []string
	var keys []string
	for k := range s.ByKey {
		keys = append(keys, k)
	}
	sort.Strings(keys)
	for _, k := range keys {
		fc := s.ByKey[k]
		fn := s.Funcs[k]
		if fn == nil {
			missing = append(missing, k)
			continue
		}
		fc.Fn = fn
	}
	return missing
}

func (fc *FuncContract) vars(fx *sym.FnExec, args []sym.Value, ret sym.Value) map[string]TV {
	vars := map[string]TV{}
	fn := fc.Fn
	ps := fn.Params
	names := fc.Params
	off := 0
	if fn.Signature.Recv() != nil {
		vars[fc.Recv] = TV{V: args[0], T: ps[0].Type()}
		off = 1
	}
	for i := 0; i+off < len(ps); i++ {
		nm := ps[i+off].Name()
		if i < len(names) && names[i] != "_" {
			nm = names[i]
		}
		vars[nm] = TV{V: args[i+off], T: ps[i+off].Type()}
	}
	res := fn.Signature.Results()
	if ret != nil || res.Len() > 0 {
		switch res.Len() {
		case 0:
		case 1:
			nm := "result"
			if len(fc.Results) == 1 {
				nm = fc.Results[0]
			}
			if ret != nil {
				vars[nm] = TV{V: ret, T: res.At(0).Type()}
				vars["result"] = vars[nm]
			}
		default:
			if tv, ok := ret.(sym.TupleV); ok {
				for i := 0; i < res.Len(); i++ {
					nm := fmt.Sprintf("result%d", i)
					vars[nm] = TV{V: tv.V[i], T: res.At(i).Type()}
					if i < len(fc.Results) {
						vars[fc.Results[i]] = vars[nm]
					}
				}
			}
		}
	}
	return vars
}
