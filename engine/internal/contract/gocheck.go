package contract

import (
	"bytes"
	"fmt"
	"go/ast"
	"go/printer"
	"go/token"
)

// PostCheck identifies an ensures clause so that a replay can re-evaluate it in Go on the real code.
type PostCheck struct {
	FC    *FuncContract
	Index int
}

// GoCheck translates ensures clause i into Go source over the given variable names.
// pre: statements to run before the call (captures of old(...)); cond: boolean Go expression after the call.
func (fc *FuncContract) GoCheck(i int, argVars, resVars []string) (pre []string, cond string, ok bool) {
	if i >= len(fc.Ensures) {
		return nil, "", false
	}
	ren := map[string]string{}
	k := 0
	if fc.Fn.Signature.Recv() != nil {
		ren[fc.Recv] = argVars[0]
		k = 1
	}
	for j := k; j < len(argVars); j++ {
		nm := fc.Fn.Params[j].Name()
		if j-k < len(fc.Params) && fc.Params[j-k] != "_" {
			nm = fc.Params[j-k]
		}
		ren[nm] = argVars[j]
	}
	for j, r := range resVars {
		ren[fmt.Sprintf("result%d", j)] = r
		if j < len(fc.Results) {
			ren[fc.Results[j]] = r
		}
		if len(resVars) == 1 {
			ren["result"] = r
		}
	}
	okAll := true
	nOld := 0
	var tr func(x ast.Expr, inOld bool) ast.Expr
	tr = func(x ast.Expr, inOld bool) ast.Expr {
		switch n := x.(type) {
		case *ast.ParenExpr:
			return &ast.ParenExpr{X: tr(n.X, inOld)}
		case *ast.BasicLit:
			return n
		case *ast.Ident:
			if r, ok := ren[n.Name]; ok {
				return ast.NewIdent(r)
			}
			return n
		case *ast.SelectorExpr:
			return &ast.SelectorExpr{X: tr(n.X, inOld), Sel: n.Sel}
		case *ast.StarExpr:
			return &ast.StarExpr{X: tr(n.X, inOld)}
		case *ast.IndexExpr:
			return &ast.IndexExpr{X: tr(n.X, inOld), Index: tr(n.Index, inOld)}
		case *ast.UnaryExpr:
			return &ast.UnaryExpr{Op: n.Op, X: tr(n.X, inOld)}
		case *ast.BinaryExpr:
			return &ast.BinaryExpr{X: tr(n.X, inOld), Op: n.Op, Y: tr(n.Y, inOld)}
		case *ast.CallExpr:
			if sel, isSel := n.Fun.(*ast.SelectorExpr); isSel {
				// spec.F(args): the executable specification function itself (the replay imports verif/spec)
				if px, ok := sel.X.(*ast.Ident); ok && px.Name == "spec" {
					var as []ast.Expr
					for _, a := range n.Args {
						as = append(as, tr(a, inOld))
					}
					return &ast.CallExpr{Fun: sel, Args: as}
				}
			}
			id, isId := n.Fun.(*ast.Ident)
			if !isId {
				okAll = false
				return n
			}
			switch id.Name {
			case "old":
				nOld++
				v := fmt.Sprintf("old%d", nOld)
				var b bytes.Buffer
				printer.Fprint(&b, token.NewFileSet(), tr(n.Args[0], true))
				pre = append(pre, fmt.Sprintf("%s := %s", v, b.String()))
				return ast.NewIdent(v)
			case "implies":
				return &ast.ParenExpr{X: &ast.BinaryExpr{X: &ast.UnaryExpr{Op: token.NOT, X: &ast.ParenExpr{X: tr(n.Args[0], inOld)}}, Op: token.LOR, Y: &ast.ParenExpr{X: tr(n.Args[1], inOld)}}}
			case "len", "cap":
				return &ast.CallExpr{Fun: id, Args: []ast.Expr{tr(n.Args[0], inOld)}}
			case "ite":
				// generic helper emitted into the replay test (verifIte)
				if len(n.Args) != 3 {
					okAll = false
					return n
				}
				return &ast.CallExpr{Fun: ast.NewIdent("verifIte"), Args: []ast.Expr{tr(n.Args[0], inOld), tr(n.Args[1], inOld), tr(n.Args[2], inOld)}}
			case "eqmem":
				return &ast.CallExpr{Fun: ast.NewIdent("verifEq"), Args: []ast.Expr{tr(n.Args[0], inOld), tr(n.Args[1], inOld)}}
			case "fresh":
				// allocation freshness cannot be observed from a test; the clause's other conjuncts are evaluated
				return ast.NewIdent("true")
			case "forall":
				// forall(i, lo, hi, body): an executable loop; an index panic inside the body counts as false
				iv, isIv := n.Args[0].(*ast.Ident)
				if !isIv || len(n.Args) != 4 {
					okAll = false
					return n
				}
				saved, had := ren[iv.Name]
				delete(ren, iv.Name)
				pr := func(x ast.Expr) string {
					var b bytes.Buffer
					printer.Fprint(&b, token.NewFileSet(), x)
					return b.String()
				}
				src := fmt.Sprintf("func() (ok bool) { defer func() { if recover() != nil { ok = false } }(); for %s := int(%s); %s < int(%s); %s++ { if !(%s) { return false } }; return true }()",
					iv.Name, pr(tr(n.Args[1], inOld)), iv.Name, pr(tr(n.Args[2], inOld)), iv.Name, pr(tr(n.Args[3], inOld)))
				if had {
					ren[iv.Name] = saved
				}
				return &ast.BasicLit{Kind: token.STRING, Value: src} // printed verbatim
			}
			if intType(id.Name) != nil {
				return &ast.CallExpr{Fun: id, Args: []ast.Expr{tr(n.Args[0], inOld)}}
			}
			okAll = false
			return n
		}
		okAll = false
		return x
	}
	e := tr(fc.Ensures[i], false)
	if !okAll {
		return nil, "", false
	}
	var b bytes.Buffer
	printer.Fprint(&b, token.NewFileSet(), e)
	return pre, b.String(), true
}
