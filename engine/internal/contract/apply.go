package contract

import (
	"fmt"
	"go/ast"
	"go/token"
	"go/types"
	"os"
	"sort"

	"golang.org/x/tools/go/ssa"

	. "verif/engine/internal/smt"
	"verif/engine/internal/sym"
)

type loc struct {
	obj  *sym.Object
	path sym.Path
}

func (e *Env) lvalue(x ast.Expr) (l loc, t types.Type) {
	switch n := x.(type) {
	case *ast.ParenExpr:
		return e.lvalue(n.X)
	case *ast.Ident:
		tv, ok := e.Vars[n.Name]
		if !ok {
			bad("unknown identifier %s in assigns", n.Name)
		}
		switch v := tv.V.(type) {
		case sym.PtrV:
			if v.Obj == nil {
				bad("assigns through nil pointer %s", n.Name)
			}
			return loc{v.Obj, v.Path}, tv.T.Underlying().(*types.Pointer).Elem()
		case sym.SliceV:
			if v.Obj == nil {
				return loc{}, nil
			}
			return loc{v.Obj, v.Path}, nil
		case sym.MapV:
			return loc{v.Obj, nil}, nil
		}
		bad("assigns target %s is not a reference", n.Name)
	case *ast.StarExpr:
		return e.lvalue(n.X)
	case *ast.SelectorExpr:
		bl, bt := e.lvalue(n.X)
		if bl.obj == nil {
			return loc{}, nil
		}
		// bt may be pointer-typed field: follow
		for {
			if p, ok := bt.Underlying().(*types.Pointer); ok {
				pv := e.Fx.Load(e.state(), sym.PtrV{Nil: False, Obj: bl.obj, Path: bl.path}, bt).(sym.PtrV)
				if pv.Obj == nil {
					return loc{}, nil
				}
				bl, bt = loc{pv.Obj, pv.Path}, p.Elem()
				continue
			}
			break
		}
		idx, ft := findField(bt, n.Sel.Name)
		if idx == nil {
			bad("no field %s in assigns", n.Sel.Name)
		}
		p := append(sym.Path(nil), bl.path...)
		ct := bt
		for k, i := range idx {
			p = append(p, sym.PathEl{Field: i})
			ct = ct.Underlying().(*types.Struct).Field(i).Type()
			if k < len(idx)-1 {
				if pp, ok := ct.Underlying().(*types.Pointer); ok {
					pv := e.Fx.Load(e.state(), sym.PtrV{Nil: False, Obj: bl.obj, Path: p}, ct).(sym.PtrV)
					if pv.Obj == nil {
						return loc{}, nil
					}
					bl = loc{pv.Obj, pv.Path}
					p = append(sym.Path(nil), pv.Path...)
					ct = pp.Elem()
				}
			}
		}
		return loc{bl.obj, p}, ft
	case *ast.SliceExpr: // x[:] -> whole backing array of slice-valued x
		tv := e.deref(e.eval(n.X))
		if s, ok := tv.V.(sym.SliceV); ok {
			if s.Obj == nil {
				return loc{}, nil
			}
			return loc{s.Obj, s.Path}, nil
		}
		return e.lvalue(n.X)
	case *ast.IndexExpr:
		return e.lvalue(&ast.SliceExpr{X: n.X})
	}
	bad("unsupported assigns target %T", x)
	return
}

func covered(ls []loc, o *sym.Object, p sym.Path) bool {
	for _, l := range ls {
		if l.obj != o || len(l.path) > len(p) {
			continue
		}
		ok := true
		for i := range l.path {
			if l.path[i].Field != p[i].Field {
				ok = false
			}
		}
		if ok {
			return true
		}
	}
	return false
}

func prefixOfAssigned(ls []loc, o *sym.Object, p sym.Path) bool {
	for _, l := range ls {
		if l.obj != o || len(l.path) < len(p) {
			continue
		}
		ok := true
		for i := range p {
			if l.path[i].Field != p[i].Field {
				ok = false
			}
		}
		if ok {
			return true
		}
	}
	return false
}

// frameGoals: every leaf of every entry object not covered by an assigned location is unchanged.
func frameGoals(fx *sym.FnExec, entry, exit *sym.State, ls []loc) []sym.NamedTerm {
	var out []sym.NamedTerm
	var rec func(o *sym.Object, p sym.Path, a, b sym.Value, name string)
	rec = func(o *sym.Object, p sym.Path, a, b sym.Value, name string) {
		if covered(ls, o, p) {
			return
		}
		if !prefixOfAssigned(ls, o, p) {
			out = append(out, sym.NamedTerm{Name: name, T: fx.EqV(a, b)})
			return
		}
		switch x := a.(type) {
		case sym.StructV:
			y := b.(sym.StructV)
			st, _ := typeAt(o.Typ, p).Underlying().(*types.Struct)
			for i := range x.F {
				fn := fmt.Sprintf("%d", i)
				if st != nil {
					fn = st.Field(i).Name()
				}
				rec(o, append(append(sym.Path(nil), p...), sym.PathEl{Field: i}), x.F[i], y.F[i], name+"."+fn)
			}
		default:
			out = append(out, sym.NamedTerm{Name: name, T: fx.EqV(a, b)})
		}
	}
	for o, a := range entry.Heap {
		b, ok := exit.Heap[o]
		if !ok {
			continue
		}
		rec(o, nil, a, b, o.Name)
	}
	return out
}

func typeAt(t types.Type, p sym.Path) types.Type {
	for _, e := range p {
		switch u := t.Underlying().(type) {
		case *types.Struct:
			t = u.Field(e.Field).Type()
		case *types.Array:
			t = u.Elem()
		default:
			return t
		}
	}
	return t
}

// Spec builds the verification spec (requires assumed, ensures/frame proved) for the contract's own function.
// Specs returns the verification runs of the contract: the general one and one per combination of lencase values.
func (fc *FuncContract) Specs() []*sym.FnSpec {
	if len(fc.LenCases) == 0 {
		return []*sym.FnSpec{fc.Spec()}
	}
	base := fc.Spec()
	req := base.Requires
	base.Requires = func(fx *sym.FnExec, st *sym.State, args []sym.Value) {
		req(fx, st, args)
		env := &Env{Fx: fx, St: st, Old: st, Vars: fc.vars(fx, args, nil), Set: fc.Set, Owner: fc.Key, Assume: true}
		var all []*Term
		for _, lc := range fc.LenCases {
			tv := env.eval(lc.Expr)
			l := tv.V.(sym.Scalar).T
			var any []*Term
			for _, v := range lc.Vals {
				any = append(any, Eq(l, BVC(l.S.W, v)))
			}
			all = append(all, Or(any...))
		}
		st.Assume(Not(And(all...)))
	}
	base.Tag = "other lengths"
	out := []*sym.FnSpec{base}
	if fc.Flags["lenonly"] {
		// the requires clauses restrict the lengths to the listed cases
		out = nil
	}
	var rec func(i int, pin map[string]uint64, tag string)
	rec = func(i int, pin map[string]uint64, tag string) {
		if i == len(fc.LenCases) {
			sp := fc.Spec()
			sp.PinLen = pin
			sp.Tag = tag
			out = append(out, sp)
			return
		}
		for _, v := range fc.LenCases[i].Vals {
			p2 := map[string]uint64{}
			for k, x := range pin {
				p2[k] = x
			}
			p2[fc.LenCases[i].Name] = v
			t2 := tag
			if t2 != "" {
				t2 += ","
			}
			rec(i+1, p2, fmt.Sprintf("%slen(%s)=%d", t2, fc.LenCases[i].Name, v))
		}
	}
	rec(0, map[string]uint64{}, "")
	return out
}

func (fc *FuncContract) Spec() *sym.FnSpec {
	skol := map[string]*Term{}
	return &sym.FnSpec{
		Requires: func(fx *sym.FnExec, st *sym.State, args []sym.Value) {
			// receivers and pointer params: contracts are about calls on non-nil receivers unless stated otherwise
			env := &Env{Fx: fx, St: st, Old: st, Vars: fc.vars(fx, args, nil), Set: fc.Set, Skol: skol, Owner: fc.Key, Assume: true, Own: true, Fuel: fc.Fuel, Opaque: fc.Opaque, Recursive: fc.Recursive}
			if fc.Fn.Signature.Recv() != nil {
				if p, ok := args[0].(sym.PtrV); ok && !fc.Flags["nilrecv"] {
					st.Assume(Not(p.Nil))
				}
			}
			for i, r := range fc.Requires {
				t, err := env.Bool(r)
				if err != nil {
					panic(sym.Unsupported{Msg: fmt.Sprintf("%s requires[%d]: %v", fc.Key, i, err)})
				}
				st.Assume(t)
			}
		},
		Post: func(fx *sym.FnExec, entry, exit *sym.State, args []sym.Value, ret sym.Value, ri int) {
			env := &Env{Fx: fx, St: exit, Old: entry, Vars: fc.vars(fx, args, ret), Set: fc.Set, Skol: skol, Owner: fc.Key, Fuel: fc.Fuel, Opaque: fc.Opaque, Recursive: fc.Recursive, Own: true}
			// named locals of the function at this return (usable in ensures, e.g. an internal keystream)
			if rf := fx.RetFrame; rf != nil && rf.Fn == fc.Fn {
				for _, b := range fc.Fn.Blocks {
					for _, in := range b.Instrs {
						dr, ok := in.(*ssa.DebugRef)
						if !ok || dr.IsAddr {
							continue
						}
						id, ok := dr.Expr.(*ast.Ident)
						if !ok {
							continue
						}
						if _, taken := env.Vars[id.Name]; taken {
							continue
						}
						if v, ok := rf.Env[dr.X]; ok {
							env.Vars[id.Name] = TV{V: v, T: dr.X.Type()}
						}
					}
				}
			}
			for i, en := range fc.Ensures {
				t, err := env.Bool(en)
				if err != nil {
					panic(sym.Unsupported{Msg: fmt.Sprintf("%s ensures[%d]: %v", fc.Key, i, err)})
				}
				fx.ObligeAux(exit, fmt.Sprintf("%s#post[%d]", fc.Key, i), "post", t, fmt.Sprintf("%s:%d", fc.File, fc.Line), "ensures "+fc.EnsSrc[i], &PostCheck{FC: fc, Index: i})
			}
			if fc.AssignsOK {
				envOld := &Env{Fx: fx, St: entry, Old: entry, Vars: fc.vars(fx, args, nil), Set: fc.Set, Owner: fc.Key}
				var ls []loc
				for _, a := range fc.Assigns {
					l, err := envOld.lv(a)
					if err != nil {
						panic(sym.Unsupported{Msg: fmt.Sprintf("%s assigns: %v", fc.Key, err)})
					}
					if l.obj != nil {
						ls = append(ls, l)
						if mv, ok := fx.ReadLoc(entry, l.obj, l.path).(sym.MapV); ok && mv.Obj != nil {
							ls = append(ls, loc{mv.Obj, nil})
						}
					}
				}
				var all []*Term
				for _, g := range frameGoals(fx, entry, exit, ls) {
					all = append(all, g.T)
				}
				fx.Oblige(exit, fmt.Sprintf("%s#frame", fc.Key), "frame", And(all...), fmt.Sprintf("%s:%d", fc.File, fc.Line), "nothing outside the assigns clause is modified")
			}
		},
	}
}

func (e *Env) lv(x ast.Expr) (l loc, err error) {
	defer func() {
		if r := recover(); r != nil {
			switch v := r.(type) {
			case evalErr:
				err = fmt.Errorf("%s", v.msg)
			case sym.Unsupported:
				err = fmt.Errorf("%s", v.Msg)
			default:
				panic(r)
			}
		}
	}()
	l, _ = e.lvalue(x)
	return l, nil
}

// Apply implements sym.Contract: modular use of the contract at a call site.
func (fc *FuncContract) Apply(fx *sym.FnExec, fr *sym.Frame, fn *ssa.Function, args []sym.Value, st *sym.State, site string, k func(*sym.State, sym.Value)) {
	pre := st.Clone()
	env := &Env{Fx: fx, St: st, Old: pre, Vars: fc.vars(fx, args, nil), Set: fc.Set, Owner: fc.Key + "@" + site}
	if fn.Signature.Recv() != nil && !fc.Flags["nilrecv"] {
		if p, ok := args[0].(sym.PtrV); ok {
			fx.Oblige(st, site+".pre[recv]", "pre", Not(p.Nil), "", "receiver of "+fc.Key+" must not be nil")
			st.Assume(Not(p.Nil))
			if st.Dead {
				return
			}
		}
	}
	for i, r := range fc.Requires {
		t, err := env.Bool(r)
		if err != nil {
			panic(sym.Unsupported{Msg: fmt.Sprintf("%s requires[%d] at call: %v", fc.Key, i, err)})
		}
		fx.Oblige(st, fmt.Sprintf("%s.pre[%d]", site, i), "pre", t, "", "precondition of "+fc.Key+": "+fc.ReqSrc[i])
		st.Assume(t)
	}
	if st.Dead {
		if os.Getenv("VERIF_DEBUG") != "" {
			fmt.Printf("state dead after requires of %s at %s\n", fc.Key, site)
		}
		return
	}
	// recursion: variant
	if fn == fx.Fn && fc.Decreases != nil {
		cur, err1 := env.Eval(fc.Decreases)
		entryArgs := fx.EntryArgs
		envE := &Env{Fx: fx, St: fx.EntryState, Old: fx.EntryState, Vars: fc.vars(fx, entryArgs, nil), Set: fc.Set}
		ent, err2 := envE.Eval(fc.Decreases)
		if err1 != nil || err2 != nil {
			panic(sym.Unsupported{Msg: fmt.Sprintf("%s decreases: %v %v", fc.Key, err1, err2)})
		}
		c := to64(env.concretize(cur, types.Typ[types.Int]))
		e0 := to64(envE.concretize(ent, types.Typ[types.Int]))
		fx.Oblige(st, site+".variant", "variant", And(SLt(c, e0), SLe(BVC(64, 0), e0)), "", "recursive call decreases the measure")
	}
	// havoc
	if fc.AssignsOK {
		for _, a := range fc.Assigns {
			l, err := env.lv(a)
			if err != nil {
				panic(sym.Unsupported{Msg: fmt.Sprintf("%s assigns at call: %v", fc.Key, err)})
			}
			if l.obj == nil {
				continue
			}
			if mv, ok := fx.ReadLoc(st, l.obj, l.path).(sym.MapV); ok && mv.Obj != nil {
				fx.HavocLoc(st, mv.Obj, nil, site)
				continue
			}
			fx.HavocLoc(st, l.obj, l.path, site)
		}
	} else if !fc.Flags["pure"] {
		for _, a := range args {
			switch v := a.(type) {
			case sym.PtrV:
				if v.Obj != nil {
					fx.HavocLoc(st, v.Obj, v.Path, site)
				}
			case sym.SliceV:
				if v.Obj != nil {
					fx.HavocLoc(st, v.Obj, v.Path, site)
				}
			}
		}
	}
	// the callee's allocations are unknown to the caller except through its ensures
	if !fc.Flags["pure"] {
		st.Ghost["alloc"] = fx.Cx.Fresh("alloc", BV(64))
		if pa, ok := pre.Ghost["alloc"]; ok {
			st.Assume(ULe(pa, st.Ghost["alloc"]))
		}
	}
	// results
	res := fn.Signature.Results()
	var ret sym.Value
	var rvals []sym.Value
	for i := 0; i < res.Len(); i++ {
		rvals = append(rvals, nil)
	}
	// direct binding for `ensures r == expr` on scalar results
	used := map[int]bool{}
	for ei, en := range fc.Ensures {
		be, ok := en.(*ast.BinaryExpr)
		if !ok || be.Op != token.EQL {
			continue
		}
		for _, side := range [][2]ast.Expr{{be.X, be.Y}, {be.Y, be.X}} {
			id, ok := side[0].(*ast.Ident)
			if !ok {
				continue
			}
			ri := -1
			for i := 0; i < res.Len(); i++ {
				if (i < len(fc.Results) && fc.Results[i] == id.Name) || (res.Len() == 1 && id.Name == "result") || id.Name == fmt.Sprintf("result%d", i) {
					ri = i
				}
			}
			if ri < 0 || rvals[ri] != nil || mentions(side[1], fc.Results, res.Len()) {
				continue
			}
			if _, isScalar := sym.IsByteLike(res.At(ri).Type()); !isScalar {
				continue
			}
			envA := *env
			envA.Assume = true
			tv, err := envA.Eval(side[1])
			if err != nil {
				continue
			}
			tv = env.concretize(tv, res.At(ri).Type())
			if s, ok := tv.V.(sym.Scalar); ok {
				if w, _ := sym.IsByteLike(res.At(ri).Type()); s.T.S.K == KBool || s.T.S.W == w {
					rvals[ri] = tv.V
					used[ei] = true
				}
			}
			break
		}
	}
	for i := range rvals {
		if rvals[i] == nil {
			rvals[i] = fx.SymValue(st, res.At(i).Type(), fmt.Sprintf("%s.ret%d", fn.Name(), i), 1)
		}
	}
	switch len(rvals) {
	case 0:
	case 1:
		ret = rvals[0]
	default:
		ret = sym.TupleV{V: rvals}
	}
	// storage reachable from the results that did not exist before the call was allocated by the callee
	for o := range st.Heap {
		if _, existed := pre.Heap[o]; !existed && o.Prov == sym.ProvParam {
			o.Prov = sym.ProvFresh
		}
	}
	env2 := &Env{Fx: fx, St: st, Old: pre, Vars: fc.vars(fx, args, ret), Set: fc.Set, Owner: fc.Key + "@" + site, Assume: true}
	// locals of the callee mentioned in its ensures are existential ghosts for the caller
	for _, b := range fn.Blocks {
		for _, in := range b.Instrs {
			dr, ok := in.(*ssa.DebugRef)
			if !ok || dr.IsAddr {
				continue
			}
			id, ok := dr.Expr.(*ast.Ident)
			if !ok {
				continue
			}
			if _, taken := env2.Vars[id.Name]; taken {
				continue
			}
			used := false
			for _, en := range fc.Ensures {
				ast.Inspect(en, func(n ast.Node) bool {
					if x, ok := n.(*ast.Ident); ok && x.Name == id.Name {
						used = true
					}
					return true
				})
			}
			if used {
				env2.Vars[id.Name] = TV{V: fx.SymValue(st, dr.X.Type(), "ghost."+id.Name, 1), T: dr.X.Type()}
			}
		}
	}
	for i, en := range fc.Ensures {
		if used[i] {
			continue
		}
		t, err := env2.Bool(en)
		if err != nil {
			panic(sym.Unsupported{Msg: fmt.Sprintf("%s ensures[%d] at call: %v", fc.Key, i, err)})
		}
		st.Assume(t)
	}
	if st.Dead {
		if os.Getenv("VERIF_DEBUG") != "" {
			fmt.Printf("state dead after assuming ensures of %s at %s\n", fc.Key, site)
		}
		return
	}
	k(st, ret)
}

func to64(tv TV) *Term {
	s := tv.V.(sym.Scalar).T
	if sym.IsSigned(tv.T) {
		return SExt(64, s)
	}
	return ZExt(64, s)
}

func mentions(x ast.Expr, results []string, n int) bool {
	found := false
	ast.Inspect(x, func(nd ast.Node) bool {
		if id, ok := nd.(*ast.Ident); ok {
			if id.Name == "result" {
				found = true
			}
			for _, r := range results {
				if r == id.Name {
					found = true
				}
			}
			for i := 0; i < n; i++ {
				if id.Name == fmt.Sprintf("result%d", i) {
					found = true
				}
			}
		}
		return true
	})
	return found
}

// LoopSpecs returns the provider of loop cut-point specs for the executor.
func (s *Set) LoopSpecs() func(fn *ssa.Function, ord int) *sym.LoopSpec {
	return func(fn *ssa.Function, ord int) *sym.LoopSpec {
		fc := s.ByKey[sym.FuncName(fn)]
		if fc == nil {
			return nil
		}
		lc := fc.Loops[fc.specForLoop(fn, ord)]
		if lc == nil {
			return nil
		}
		if len(lc.Invariants) == 0 && lc.Decreases == nil {
			return nil
		}
		skol := map[string]*Term{}
		mkEnv := func(fx *sym.FnExec, fr *sym.Frame, st *sym.State) *Env {
			var args []sym.Value
			for _, p := range fn.Params {
				args = append(args, fr.Env[p])
			}
			vars := fc.vars(fx, args, nil)
			paramNames := map[string]bool{}
			for k := range vars {
				paramNames[k] = true
			}
			phiNames := map[string]bool{}
			// loop-carried locals: header phis and allocs by source name
			for v, val := range fr.Env {
				switch x := v.(type) {
				case *ssa.Phi:
					if x.Comment != "" {
						// prefer the phi of this loop's header over other phis of the same variable
						if !phiNames[x.Comment] || (ord < len(sym.LoopHeaders(fn)) && x.Block() == sym.LoopHeaders(fn)[ord]) {
							vars[x.Comment] = TV{V: val, T: x.Type()}
							phiNames[x.Comment] = true
						}
					}
				case *ssa.Alloc:
					if x.Comment != "" {
						if _, taken := vars[x.Comment]; !taken {
							if p, ok := val.(sym.PtrV); ok && p.Obj != nil {
								if hv, ok := st.Heap[p.Obj]; ok {
									vars[x.Comment] = TV{V: hv, T: x.Type().(*types.Pointer).Elem()}
								}
							}
						}
					}
				}
			}
			// loop-invariant locals: source names bound (DebugRef) in blocks that strictly dominate the header
			hs := sym.LoopHeaders(fn)
			if ord < len(hs) {
				h := hs[ord]
				for _, b := range fn.Blocks {
					if b == h || !b.Dominates(h) {
						continue
					}
					for _, in := range b.Instrs {
						dr, ok := in.(*ssa.DebugRef)
						if !ok || dr.IsAddr {
							continue
						}
						id, ok := dr.Expr.(*ast.Ident)
						if !ok {
							continue
						}
						if _, taken := vars[id.Name]; taken {
							if _, isParam := paramNames[id.Name]; isParam || phiNames[id.Name] {
								continue
							}
						}
						var val sym.Value
						if c, isC := dr.X.(*ssa.Const); isC {
							val = fx.ConstVal(c)
						} else if v, ok := fr.Env[dr.X]; ok {
							val = v
						} else {
							continue
						}
						vars[id.Name] = TV{V: val, T: dr.X.Type()}
					}
				}
			}
			old := fx.EntryState
			if old == nil {
				old = st
			}
			return &Env{Fx: fx, St: st, Old: old, Vars: vars, Set: s, Skol: skol, Owner: fmt.Sprintf("%s.loop%d", fc.Key, ord), Fuel: fc.Fuel, Opaque: fc.Opaque, Recursive: fc.Recursive, Own: true}
		}
		ls := &sym.LoopSpec{Unroll: lc.Unroll, Bounded: lc.Bounded}
		ls.Invariant = func(fx *sym.FnExec, fr *sym.Frame, st *sym.State, entry *sym.State, assume bool) []*sym.NamedTerm {
			env := mkEnv(fx, fr, st)
			env.Assume = assume
			var out []*sym.NamedTerm
			for i, inv := range lc.Invariants {
				t, err := env.Bool(inv)
				if err != nil {
					panic(sym.Unsupported{Msg: fmt.Sprintf("%s loop %d invariant[%d]: %v", fc.Key, ord, i, err)})
				}
				out = append(out, &sym.NamedTerm{Name: fmt.Sprintf("%d", i), T: t})
			}
			return out
		}
		if lc.Decreases != nil {
			ls.Decreases = func(fx *sym.FnExec, fr *sym.Frame, st *sym.State) *Term {
				env := mkEnv(fx, fr, st)
				tv, err := env.Eval(lc.Decreases)
				if err != nil {
					panic(sym.Unsupported{Msg: fmt.Sprintf("%s loop %d decreases: %v", fc.Key, ord, err)})
				}
				return to64(env.concretize(tv, types.Typ[types.Int]))
			}
		}
		return ls
	}
}

// specForLoop maps a loop of the function (by ordinal) to the ordinal of the loop clause group written for it.
// Normally these coincide. When a loop was added or removed in front of an annotated loop, the group no longer
// mentions the loop-carried variables of the loop with its ordinal; it is then re-attached to the only loop whose
// header carries all the loop-carried variables the group mentions. -1 = no clause group.
func (fc *FuncContract) specForLoop(fn *ssa.Function, ord int) int {
	fc.loopMapOnce.Do(func() {
		fc.loopMap = map[int]int{}
		hs := sym.LoopHeaders(fn)
		carried := make([]map[string]bool, len(hs))
		all := map[string]bool{}
		for k, h := range hs {
			carried[k] = map[string]bool{}
			for _, in := range h.Instrs {
				if p, ok := in.(*ssa.Phi); ok && p.Comment != "" {
					carried[k][p.Comment] = true
					all[p.Comment] = true
				}
			}
		}
		ids := map[int]map[string]bool{}
		for so, lc := range fc.Loops {
			m := map[string]bool{}
			bound := map[string]bool{}
			visit := func(e ast.Expr) {
				ast.Inspect(e, func(n ast.Node) bool {
					switch x := n.(type) {
					case *ast.CallExpr:
						if id, ok := x.Fun.(*ast.Ident); ok && (id.Name == "forall" || id.Name == "forallk") && len(x.Args) > 0 {
							if v, ok := x.Args[0].(*ast.Ident); ok {
								bound[v.Name] = true
							}
						}
					case *ast.Ident:
						if all[x.Name] {
							m[x.Name] = true
						}
					}
					return true
				})
			}
			for _, inv := range lc.Invariants {
				visit(inv)
			}
			if lc.Decreases != nil {
				visit(lc.Decreases)
			}
			for b := range bound {
				delete(m, b)
			}
			ids[so] = m
		}
		fits := func(so, k int) bool {
			if k < 0 || k >= len(hs) {
				return false
			}
			for n := range ids[so] {
				if !carried[k][n] {
					return false
				}
			}
			return true
		}
		taken := map[int]bool{}
		var moved []int
		for so := range fc.Loops {
			if len(ids[so]) == 0 || fits(so, so) {
				fc.loopMap[so] = so
				taken[so] = true
			} else {
				moved = append(moved, so)
			}
		}
		sort.Ints(moved)
		for _, so := range moved {
			cand := -1
			n := 0
			for k := range hs {
				if !taken[k] && fits(so, k) {
					cand = k
					n++
				}
			}
			if n == 1 {
				fc.loopMap[cand] = so
				taken[cand] = true
			} else {
				fc.loopMap[so] = so // leave as written; the clauses will fail to bind and say so
			}
		}
	})
	if so, ok := fc.loopMap[ord]; ok {
		return so
	}
	return -1
}
