// Package core: loading /repo, discharging obligations, evidence and violation reporting.
package core

import (
	"fmt"
	"go/ast"
	"os"
	"path/filepath"
	"sort"
	"strings"
	"sync"
	"time"

	"golang.org/x/tools/go/packages"
	"golang.org/x/tools/go/ssa"
	"golang.org/x/tools/go/ssa/ssautil"

	"verif/engine/internal/contract"
	"verif/engine/internal/smt"
	"verif/engine/internal/sym"
)

// RepoDir is the tree under verification (/repo; VERIF_REPO_DIR overrides it for the self-test on scratch copies).
var RepoDir = envOr("VERIF_REPO_DIR", "/repo")

const VerifDir = "/verif"

// OutDir receives evidence/ and replays/ (VERIF_OUT_DIR overrides it for the self-test).
var OutDir = envOr("VERIF_OUT_DIR", VerifDir)

func envOr(k, d string) string {
	if v := os.Getenv(k); v != "" {
		return v
	}
	return d
}

const ModPath = "github.com/free5gc/nas"

type World struct {
	Prog      *ssa.Program
	Pkgs      []*packages.Package
	SSAPkgs   map[string]*ssa.Package // by short path ("security", "nas", "security/snow3g")
	Funcs     map[string]*ssa.Function
	Cx        *sym.Ctx
	Contracts *contract.Set
	SpecProg  *ssa.Program
	LoadSecs  float64
	Hooks     []string
}

func ShortPkg(path string) string {
	if path == ModPath {
		return "nas"
	}
	return strings.TrimPrefix(path, ModPath+"/")
}

// Load builds SSA for the current working tree of /repo with the verif tag and parses the contract files.
func Load() (*World, error) {
	t0 := time.Now()
	cfg := &packages.Config{Mode: packages.LoadAllSyntax, Dir: RepoDir, BuildFlags: []string{"-tags=verif"},
		Env: append(os.Environ(), "GOFLAGS=-mod=mod", "GOPROXY=off", "GOSUMDB=off", "GOTOOLCHAIN=local")}
	pkgs, err := packages.Load(cfg, "./...")
	if err != nil {
		return nil, err
	}
	nerr := 0
	packages.Visit(pkgs, nil, func(p *packages.Package) {
		for _, e := range p.Errors {
			if strings.HasPrefix(p.PkgPath, ModPath) {
				fmt.Fprintln(os.Stderr, "load error:", e)
				nerr++
			}
		}
	})
	if nerr > 0 {
		return nil, fmt.Errorf("/repo does not type-check with -tags=verif (%d errors)", nerr)
	}
	prog, spkgs := ssautil.AllPackages(pkgs, ssa.GlobalDebug)
	prog.Build()
	w := &World{Prog: prog, Pkgs: pkgs, SSAPkgs: map[string]*ssa.Package{}, Funcs: map[string]*ssa.Function{}}
	for i, sp := range spkgs {
		if sp != nil && strings.HasPrefix(pkgs[i].PkgPath, ModPath) {
			w.SSAPkgs[ShortPkg(pkgs[i].PkgPath)] = sp
		}
	}
	for fn := range ssautil.AllFunctions(prog) {
		if fn.Pkg == nil || !strings.HasPrefix(fn.Pkg.Pkg.Path(), ModPath) {
			continue
		}
		if fn.Synthetic != "" {
			continue
		}
		w.Funcs[sym.FuncName(fn)] = fn
	}
	w.Cx = sym.NewCtx(prog)
	w.Cx.InstallStdlib()
	w.Cx.Inline = func(caller, callee *ssa.Function) bool {
		return callee.Pkg != nil && strings.HasPrefix(callee.Pkg.Pkg.Path(), ModPath)
	}
	w.Contracts = contract.NewSet()
	w.Contracts.Funcs = w.Funcs
	// contract files
	for _, p := range pkgs {
		if !strings.HasPrefix(p.PkgPath, ModPath) {
			continue
		}
		dir := filepath.Join(RepoDir, strings.TrimPrefix(strings.TrimPrefix(p.PkgPath, ModPath), "/"))
		cf := filepath.Join(dir, "verif_contracts.go")
		if _, err := os.Stat(cf); err == nil {
			short := ShortPkg(p.PkgPath)
			if err := w.Contracts.ParseFile(cf, short); err != nil {
				return nil, err
			}
			w.Hooks = append(w.Hooks, cf)
		}
	}
	// spec library
	if err := w.loadSpec(); err != nil {
		return nil, err
	}
	if missing := w.Contracts.Bind(); len(missing) > 0 {
		return nil, &BindingError{Missing: missing}
	}
	for k, fc := range w.Contracts.ByKey {
		if fc.Fn != nil && !fc.Flags["inline"] {
			w.Cx.Contracts[fc.Fn.String()] = fc
		}
		_ = k
	}
	w.Cx.Loops = w.Contracts.LoopSpecs()
	w.LoadSecs = time.Since(t0).Seconds()
	return w, nil
}

type BindingError struct{ Missing []string }

func (b *BindingError) Error() string {
	return "contract-binding: contracts without a matching function: " + strings.Join(b.Missing, ", ")
}

func (w *World) loadSpec() error {
	dir := filepath.Join(VerifDir, "spec")
	if _, err := os.Stat(filepath.Join(dir, "go.mod")); err != nil {
		return nil
	}
	cfg := &packages.Config{Mode: packages.LoadAllSyntax, Dir: dir,
		Env: append(os.Environ(), "GOFLAGS=-mod=mod", "GOPROXY=off", "GOSUMDB=off", "GOTOOLCHAIN=local")}
	pkgs, err := packages.Load(cfg, ".")
	if err != nil {
		return err
	}
	for _, p := range pkgs {
		for _, e := range p.Errors {
			return fmt.Errorf("spec package: %v", e)
		}
	}
	prog, spkgs := ssautil.AllPackages(pkgs, ssa.BuilderMode(0))
	prog.Build()
	w.SpecProg = prog
	for _, sp := range spkgs {
		if sp == nil {
			continue
		}
		for name, m := range sp.Members {
			if fn, ok := m.(*ssa.Function); ok {
				w.Contracts.Specs[name] = fn
			}
		}
	}
	return nil
}

// FuncsOfPkg lists functions (sorted by name) of one package, optionally filtered.
func (w *World) FuncsOfPkg(short string, filter func(fn *ssa.Function) bool) []*ssa.Function {
	var out []*ssa.Function
	for _, fn := range w.Funcs {
		if fn.Pkg == nil || ShortPkg(fn.Pkg.Pkg.Path()) != short {
			continue
		}
		if filter != nil && !filter(fn) {
			continue
		}
		out = append(out, fn)
	}
	sort.Slice(out, func(i, j int) bool { return sym.FuncName(out[i]) < sym.FuncName(out[j]) })
	return out
}

// PkgSyntax returns the AST files of a package of /repo by short name.
func (w *World) PkgSyntax(short string) (*packages.Package, []*ast.File) {
	var res *packages.Package
	packages.Visit(w.Pkgs, nil, func(p *packages.Package) {
		if strings.HasPrefix(p.PkgPath, ModPath) && ShortPkg(p.PkgPath) == short {
			res = p
		}
	})
	if res == nil {
		return nil, nil
	}
	return res, res.Syntax
}

// ---------------- discharge ----------------

type Outcome struct {
	Name    string              `json:"name"`
	Kind    string              `json:"kind"`
	Fn      string              `json:"function"`
	Status  string              `json:"status"` // discharged | failed | undecided
	Backend string              `json:"backend"`
	Seconds float64             `json:"seconds"`
	Members int                 `json:"paths"`
	Info    string              `json:"info,omitempty"`
	Pos     string              `json:"pos,omitempty"`
	Model   map[string]uint64   `json:"-"`
	Arr     map[string][]uint64 `json:"-"`
	Raw     string              `json:"-"`
	Script  string              `json:"-"`
	Entry   *sym.EntryInfo      `json:"-"`
	Cover   bool                `json:"cover,omitempty"`
	Aux     interface{}         `json:"-"`
	Size    int                 `json:"size,omitempty"`
}

type DischargeOpts struct {
	Timeout  time.Duration
	TwoUnsat bool
	Seed     int
	Workers  int
}

func Discharge(obls []*sym.Oblig, opt DischargeOpts) []Outcome {
	groups := map[string][]*sym.Oblig{}
	var order []string
	for _, o := range obls {
		if _, ok := groups[o.Name]; !ok {
			order = append(order, o.Name)
		}
		groups[o.Name] = append(groups[o.Name], o)
	}
	out := make([]Outcome, len(order))
	if opt.Workers == 0 {
		opt.Workers = 16
	}
	sem := make(chan struct{}, opt.Workers)
	var wg sync.WaitGroup
	for i, name := range order {
		wg.Add(1)
		sem <- struct{}{}
		go func(i int, name string) {
			defer wg.Done()
			defer func() { <-sem }()
			out[i] = solveGroup(name, groups[name], opt)
		}(i, name)
	}
	wg.Wait()
	return out
}

func solveGroup(name string, g []*sym.Oblig, opt DischargeOpts) Outcome {
	o0 := g[0]
	oc := Outcome{Name: name, Kind: o0.Kind, Fn: o0.Fn, Members: len(g), Info: o0.Info, Pos: o0.Pos, Entry: o0.Entry, Cover: o0.Cover}
	var disj, slim []*smt.Term
	seen := map[uint64]bool{}
	for _, o := range g {
		var c, cs *smt.Term
		if o.Cover {
			c = smt.And(o.Assumes...)
			cs = c
		} else {
			if o.Goal.IsTrue() {
				continue
			}
			c = smt.And(append(append([]*smt.Term(nil), o.Assumes...), smt.Not(o.Goal))...)
			cs = smt.And(append(relevant(o.Assumes, o.Goal), smt.Not(o.Goal))...)
			if o.Info != "" && oc.Info == "" {
				oc.Info = o.Info
			}
		}
		if c.IsFalse() || seen[c.ID()] {
			continue
		}
		if oc.Aux == nil {
			oc.Aux = o.Aux
		}
		seen[c.ID()] = true
		disj = append(disj, c)
		slim = append(slim, cs)
		oc.Size += c.Size()
	}
	if o0.Cover {
		if len(disj) == 0 {
			oc.Status, oc.Backend = "failed", "simplifier"
			oc.Info = "vacuous: path condition is unsatisfiable"
			return oc
		}
		for _, d := range disj {
			if d.IsTrue() {
				oc.Status, oc.Backend = "discharged", "simplifier"
				return oc
			}
		}
		r := smt.Solve([]*smt.Term{smt.Or(disj...)}, smt.Options{Timeout: opt.Timeout, Seed: opt.Seed})
		oc.Seconds, oc.Backend = r.Seconds, r.Solver
		switch r.Status {
		case "sat":
			oc.Status = "discharged"
		case "unsat":
			oc.Status = "failed"
			oc.Info = "vacuous: " + oc.Info
		default:
			oc.Status = "undecided"
			oc.Raw = r.Raw
		}
		return oc
	}
	if len(disj) == 0 {
		oc.Status, oc.Backend = "discharged", "simplifier"
		return oc
	}
	chunk := func(d []*smt.Term) [][]*smt.Term {
		if len(d) <= 24 && oc.Size <= 200000 {
			return [][]*smt.Term{d}
		}
		var out [][]*smt.Term
		for i := 0; i < len(d); i += 12 {
			j := i + 12
			if j > len(d) {
				j = len(d)
			}
			out = append(out, d[i:j])
		}
		return out
	}
	oc.Status = "discharged"
	backends := map[string]bool{}
	full := chunk(disj)
	for ci, ch := range chunk(slim) {
		// stage 1: assumptions restricted to the goal's cone of influence (only an unsat answer is trusted)
		r := smt.Solve([]*smt.Term{smt.Or(ch...)}, smt.Options{Timeout: opt.Timeout, Seed: opt.Seed, TwoUnsat: opt.TwoUnsat})
		oc.Seconds += r.Seconds
		if r.Status != "unsat" {
			// stage 2: all assumptions of the path
			r = smt.Solve([]*smt.Term{smt.Or(full[ci]...)}, smt.Options{Timeout: opt.Timeout, Seed: opt.Seed, TwoUnsat: opt.TwoUnsat})
			oc.Seconds += r.Seconds
		}
		backends[r.Solver] = true
		switch r.Status {
		case "unsat":
			if opt.TwoUnsat && len(r.Agree) >= 2 {
				backends[strings.Join(r.Agree, "+")] = true
				delete(backends, r.Solver)
			}
		case "sat":
			oc.Status = "failed"
			// prefer a small counterexample (replayable without huge allocations): bound every length / capacity
			// variable of the query and ask again; the first answer is kept if no small model exists
			for _, lim := range []uint64{64, 4096} {
				vs, _ := smt.CollectVars(full[ci])
				var small []*smt.Term
				for _, v := range vs {
					if v.S.K == smt.KBV && v.S.W == 64 && (strings.Contains(v.Name, ".len!") || strings.Contains(v.Name, ".cap!") || strings.HasSuffix(v.Name, ".len") || strings.HasSuffix(v.Name, ".cap")) {
						small = append(small, smt.ULe(v, smt.BVC(64, lim)))
					}
				}
				if len(small) == 0 {
					break
				}
				r2 := smt.Solve(append([]*smt.Term{smt.Or(full[ci]...)}, small...), smt.Options{Timeout: 5 * time.Second, Seed: opt.Seed, OnlyFirst: true})
				oc.Seconds += r2.Seconds
				if r2.Status == "sat" {
					r = r2
					break
				}
			}
			oc.Model, oc.Arr, oc.Raw, oc.Script = r.Model, r.ArrModel, r.Raw, r.Script
			oc.Backend = r.Solver
			return oc
		default:
			oc.Status = "undecided"
			oc.Raw = r.Raw
			oc.Script = r.Script
		}
	}
	var bs []string
	for b := range backends {
		bs = append(bs, b)
	}
	sort.Strings(bs)
	oc.Backend = strings.Join(bs, ",")
	return oc
}

// relevant keeps the assumptions in the cone of influence of the goal (those sharing variables, transitively).
// Dropping assumptions is sound for validity checking.
func relevant(assumes []*smt.Term, goal *smt.Term) []*smt.Term {
	if len(assumes) < 4 {
		return append([]*smt.Term(nil), assumes...)
	}
	varsOf := func(t *smt.Term) map[string]bool {
		vs, ufs := smt.CollectVars([]*smt.Term{t})
		m := map[string]bool{}
		for _, v := range vs {
			m[v.Name] = true
		}
		for n := range ufs {
			m["uf:"+n] = true
		}
		return m
	}
	sets := make([]map[string]bool, len(assumes))
	for i, a := range assumes {
		sets[i] = varsOf(a)
	}
	live := varsOf(goal)
	used := make([]bool, len(assumes))
	changed := true
	for changed {
		changed = false
		for i := range assumes {
			if used[i] {
				continue
			}
			hit := len(sets[i]) == 0
			for v := range sets[i] {
				if live[v] {
					hit = true
					break
				}
			}
			if hit {
				used[i] = true
				changed = true
				for v := range sets[i] {
					live[v] = true
				}
			}
		}
	}
	var out []*smt.Term
	for i, a := range assumes {
		if used[i] {
			out = append(out, a)
		}
	}
	return out
}
