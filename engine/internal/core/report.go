package core

import (
	"encoding/json"
	"fmt"
	"os"
	"path/filepath"
	"regexp"
	"sort"
	"strings"
	"sync/atomic"
	"time"

	"verif/engine/internal/smt"
)

type Bounded struct {
	Function string `json:"function"`
	Bound    string `json:"bound"`
}

type Report struct {
	Prop        string
	Tier        string
	Seed        int
	Functions   []string
	Outcomes    []Outcome
	Aborted     map[string]string // function -> reason; counts as a failed (undecided) claim
	Bounded     []Bounded
	BoundedObls map[string]bool // names of obligations that belong to bounded instances
	GeneralObls map[string]bool // names of obligations generated (also) by jobs over all inputs
	Assumptions []string
	Trusted     []string
	Inlined     []string
	Floor       int
	Start       time.Time
	Explain     string
	Extra       map[string]interface{}
	Broken      string // machinery failure (spec sanity etc.)
}

func NewReport(prop, tier string, seed int) *Report {
	return &Report{Prop: prop, Tier: tier, Seed: seed, Aborted: map[string]string{}, Start: time.Now(), Extra: map[string]interface{}{}, BoundedObls: map[string]bool{}, GeneralObls: map[string]bool{}}
}

type KnownFinding struct {
	Property   string `json:"property"`
	Obligation string `json:"obligation"`
	Function   string `json:"function"`
	Witness    string `json:"witness"`
	Status     string `json:"status"` // open | fixed
	Commit     string `json:"commit,omitempty"`
	What       string `json:"what"`
}

func LoadKnown() []KnownFinding {
	var k struct {
		Findings []KnownFinding `json:"findings"`
	}
	data, err := os.ReadFile(filepath.Join(VerifDir, "known_findings.json"))
	if err != nil {
		return nil
	}
	if err := json.Unmarshal(data, &k); err != nil {
		fmt.Fprintln(os.Stderr, "known_findings.json:", err)
		return nil
	}
	return k.Findings
}

var unsafeName = regexp.MustCompile(`[^A-Za-z0-9_.\-\[\]#]+`)

func (r *Report) AddUnique(list *[]string, items ...string) {
	seen := map[string]bool{}
	for _, x := range *list {
		seen[x] = true
	}
	for _, x := range items {
		if !seen[x] {
			*list = append(*list, x)
			seen[x] = true
		}
	}
	sort.Strings(*list)
}

// Finish writes evidence, prints VIOLATION / KNOWN-FINDING lines and returns the process exit code.
func (r *Report) Finish(w *World) int {
	wall := time.Since(r.Start).Seconds()
	r.AddUnique(&r.Trusted, "go/ssa lowering of Go source (golang.org/x/tools v0.29.0)", "SMT solvers z3 4.8.12 / z3 5.1.0 / cvc5 1.0", "the engine's own term simplifier and VC generator (/verif/engine)")
	if r.Bounded == nil {
		r.Bounded = []Bounded{}
	}
	if r.Assumptions == nil {
		r.Assumptions = []string{}
	}
	if r.Inlined == nil {
		r.Inlined = []string{}
	}
	known := LoadKnown()
	isKnown := func(name string) *KnownFinding {
		for i := range known {
			k := &known[i]
			if k.Property == r.Prop && k.Status == "open" && k.Obligation == name {
				return k
			}
		}
		return nil
	}
	total, discharged := 0, 0
	covers, coversOK := 0, 0
	byBackend := map[string]int{}
	byKind := map[string]int{}
	var failed []Outcome
	var knownHit []string
	var samples []interface{}
	for _, o := range r.Outcomes {
		if o.Cover {
			covers++
			if o.Status == "discharged" {
				coversOK++
			} else {
				failed = append(failed, o)
			}
			continue
		}
		total++
		byKind[o.Kind]++
		if o.Status == "discharged" {
			discharged++
			byBackend[o.Backend]++
			if len(samples) < 6 && o.Backend != "simplifier" && o.Backend != "" {
				samples = append(samples, map[string]interface{}{"obligation": o.Name, "kind": o.Kind, "backend": o.Backend, "paths": o.Members, "term_size": o.Size, "seconds": o.Seconds})
			}
			continue
		}
		failed = append(failed, o)
	}
	var abortedFns []string
	for f := range r.Aborted {
		abortedFns = append(abortedFns, f)
	}
	sort.Strings(abortedFns)
	exit := 0
	violations := 0
	replayDir := filepath.Join(OutDir, "replays", r.Prop)
	var lines []string
	if r.Broken != "" {
		fmt.Printf("BROKEN property=%s %s\n", r.Prop, r.Broken)
		exit = 2
	}
	report := func(name, fn, kind, status, info string, o *Outcome) {
		if k := isKnown(name); k != nil {
			knownHit = append(knownHit, name)
			lines = append(lines, fmt.Sprintf("KNOWN-FINDING: property=%s %s: %s", r.Prop, name, k.What))
			return
		}
		violations++
		os.MkdirAll(replayDir, 0o755)
		base := unsafeName.ReplaceAllString(name, "_")
		if len(base) > 150 {
			base = base[:150]
		}
		path := filepath.Join(replayDir, base+".json")
		rp := map[string]interface{}{"property": r.Prop, "obligation": name, "function": fn, "kind": kind, "status": status, "info": info}
		suffix := " no-failing-input-found"
		if o != nil {
			rp["solver"] = o.Backend
			rp["solver_output"] = trunc(o.Raw, 6000)
			rp["pos"] = o.Pos
			if o.Status == "failed" && o.Model != nil {
				rp["model"] = o.Model
				rp["model_arrays"] = o.Arr
				res := Replay(w, o, path)
				rp["replay"] = res
				if res != nil && res.Confirmed {
					suffix = ""
				}
			}
			if o.Script != "" {
				os.WriteFile(strings.TrimSuffix(path, ".json")+".smt2", []byte(o.Script), 0o644)
			}
		}
		data, _ := json.MarshalIndent(rp, "", " ")
		os.WriteFile(path, data, 0o644)
		lines = append(lines, fmt.Sprintf("VIOLATION property=%s replay=%s obligation=%s status=%s%s", r.Prop, path, name, status, suffix))
		exit = 1
	}
	sort.Slice(failed, func(i, j int) bool { return failed[i].Name < failed[j].Name })
	for i := range failed {
		o := &failed[i]
		report(o.Name, o.Fn, o.Kind, o.Status, o.Info, o)
	}
	for _, f := range abortedFns {
		report(f+"#subset", f, "subset", "undecided", "function could not be translated: "+r.Aborted[f], nil)
	}
	if r.Floor > 0 && total < r.Floor && r.Broken == "" {
		report(r.Prop+"#obligation-floor", "", "vacuity", "undecided", fmt.Sprintf("only %d obligations generated, floor is %d", total, r.Floor), nil)
	}
	for _, l := range lines {
		fmt.Println(l)
	}
	// evidence
	sort.Strings(r.Functions)
	if len(samples) == 0 {
		for _, o := range r.Outcomes {
			if len(samples) < 3 {
				samples = append(samples, map[string]interface{}{"obligation": o.Name, "kind": o.Kind, "backend": o.Backend})
			}
		}
	}
	var undec []string
	for _, o := range failed {
		undec = append(undec, o.Name+" ("+o.Status+")")
	}
	nBounded := 0
	for _, o := range r.Outcomes {
		if !o.Cover && r.BoundedObls[o.Name] && !r.GeneralObls[o.Name] {
			nBounded++
		}
	}
	cov := map[string]interface{}{
		"obligations":                      total,
		"discharged":                       discharged,
		"checker_cmd":                      fmt.Sprintf("/verif/bin/govc check %s --tier %s", r.Prop, r.Tier),
		"trusted_base":                     r.Trusted,
		"functions_under_contract":         len(r.Functions),
		"functions":                        r.Functions,
		"by_backend":                       byBackend,
		"by_kind":                          byKind,
		"covers":                           map[string]int{"total": covers, "satisfiable": coversOK},
		"solver_time_s":                    float64(atomic.LoadInt64(&smt.SolverTime)) / 1e9,
		"solver_calls":                     atomic.LoadInt64(&smt.SolverCalls),
		"bounded":                          r.Bounded,
		"obligations_of_bounded_instances": nBounded,
		"obligations_for_all_inputs":       total - nBounded,
		"undecided_or_failed":              undec,
		"known_findings_hit":               knownHit,
		"inlined_callees":                  r.Inlined,
		"samples":                          samples,
		"explanation":                      r.Explain,
		"load_s":                           w.LoadSecs,
		"contract_files":                   w.Hooks,
	}
	for k, v := range r.Extra {
		cov[k] = v
	}
	ev := map[string]interface{}{
		"property_id": r.Prop,
		"tier":        r.Tier,
		"seed":        r.Seed,
		"level":       "proof",
		"coverage":    cov,
		"assumptions": r.Assumptions,
		"wall_s":      wall,
		"violations":  violations,
	}
	os.MkdirAll(filepath.Join(OutDir, "evidence"), 0o755)
	data, _ := json.MarshalIndent(ev, "", " ")
	os.WriteFile(filepath.Join(OutDir, "evidence", r.Prop+".json"), data, 0o644)
	fmt.Printf("%s tier=%s functions=%d obligations=%d discharged=%d covers=%d/%d known=%d violations=%d wall=%.1fs solver=%.1fs\n",
		r.Prop, r.Tier, len(r.Functions), total, discharged, coversOK, covers, len(knownHit), violations, wall, float64(atomic.LoadInt64(&smt.SolverTime))/1e9)
	return exit
}

func trunc(s string, n int) string {
	if len(s) > n {
		return s[:n] + "…"
	}
	return s
}
