package core

import (
	"context"
	"encoding/json"
	"fmt"
	"go/types"
	"os"
	"os/exec"
	"path/filepath"
	"sort"
	"strings"
	"time"

	"verif/engine/internal/contract"
	"verif/engine/internal/smt"
	"verif/engine/internal/sym"
)

type ReplayResult struct {
	Confirmed bool   `json:"confirmed"`
	Reason    string `json:"reason"`
	Test      string `json:"test_file,omitempty"`
	Cmd       string `json:"cmd,omitempty"`
	Output    string `json:"output,omitempty"`
}

type litBuilder struct {
	o       *Outcome
	heap    map[*sym.Object]sym.Value
	pkg     *types.Package
	imports map[string]string
	tooBig  bool
	unsup   string
}

func (b *litBuilder) qual(p *types.Package) string {
	if p == b.pkg {
		return ""
	}
	b.imports[p.Path()] = p.Name()
	return p.Name()
}

func (b *litBuilder) scalar(t *smt.Term) uint64 {
	if t.IsConst() {
		return t.Val
	}
	if t.Op == "var" {
		return b.o.Model[t.Name]
	}
	v, ok := smt.Eval(t, b.o.Model, b.o.Arr)
	if !ok {
		b.unsup = "entry/expected term not evaluable under the model"
	}
	return v
}

func (b *litBuilder) elems(c sym.Content, off, n uint64) []uint64 {
	if n > 1<<16 {
		b.tooBig = true
		return nil
	}
	out := make([]uint64, n)
	for i := uint64(0); i < n; i++ {
		out[i] = b.scalar(c.Elem(smt.BVC(64, off+i)))
	}
	return out
}

func (b *litBuilder) lit(v sym.Value, t types.Type) string {
	ts := types.TypeString(t, b.qual)
	switch x := v.(type) {
	case sym.Scalar:
		val := b.scalar(x.T)
		if sym.IsBool(t) {
			if val != 0 {
				return "true"
			}
			return "false"
		}
		if sym.IsSigned(t) {
			w, _ := sym.IsByteLike(t)
			sv := int64(val)
			if w < 64 && val&(1<<uint(w-1)) != 0 {
				sv = int64(val | ^((uint64(1) << uint(w)) - 1))
			}
			return fmt.Sprintf("%s(%d)", ts, sv)
		}
		return fmt.Sprintf("%s(%d)", ts, val)
	case sym.StrV:
		n := b.scalar(x.Len)
		if n > 1<<16 {
			b.tooBig = true
			return `""`
		}
		es := b.elems(x.C, b.scalar(x.Off), n)
		bs := make([]byte, n)
		for i := range bs {
			bs[i] = byte(es[i])
		}
		return fmt.Sprintf("%s(%q)", ts, string(bs))
	case sym.ErrV:
		if b.scalar(x.Code) == 0 {
			return "error(nil)"
		}
		b.imports["errors"] = "errors"
		return `errors.New("replay")`
	case sym.StructV:
		st := t.Underlying().(*types.Struct)
		var fs []string
		for i, f := range x.F {
			fs = append(fs, fmt.Sprintf("%s: %s", st.Field(i).Name(), b.lit(f, st.Field(i).Type())))
		}
		return fmt.Sprintf("%s{%s}", ts, strings.Join(fs, ", "))
	case sym.ArrV:
		at, ok := t.Underlying().(*types.Array)
		if !ok {
			b.unsup = "ArrV of non-array type"
			return "nil"
		}
		n := uint64(at.Len())
		es := b.elems(x.C, 0, n)
		return fmt.Sprintf("%s{%s}", ts, joinElems(es, at.Elem(), b))
	case sym.ArrS:
		at := t.Underlying().(*types.Array)
		var fs []string
		for _, e := range x.Elems {
			fs = append(fs, b.lit(e, at.Elem()))
		}
		return fmt.Sprintf("%s{%s}", ts, strings.Join(fs, ", "))
	case sym.PtrV:
		if x.Obj == nil || b.scalar(x.Nil) != 0 {
			return "nil"
		}
		pt := t.Underlying().(*types.Pointer)
		hv, ok := b.heap[x.Obj]
		if !ok || len(x.Path) != 0 {
			b.unsup = "pointer into object"
			return "nil"
		}
		inner := b.lit(hv, pt.Elem())
		switch pt.Elem().Underlying().(type) {
		case *types.Struct, *types.Array:
			return "&" + inner
		}
		ets := types.TypeString(pt.Elem(), b.qual)
		return fmt.Sprintf("func() *%s { v := %s; return &v }()", ets, inner)
	case sym.SliceV:
		if x.Obj == nil || b.scalar(x.Nil) != 0 {
			return "nil"
		}
		st := t.Underlying().(*types.Slice)
		n := b.scalar(x.Len)
		cp := b.scalar(x.Cap)
		if cp > 1<<20 {
			b.tooBig = true
			return "nil"
		}
		if as, ok := b.heap[x.Obj].(sym.ArrS); ok {
			// slice of composite elements of known number
			off := b.scalar(x.Off)
			if off+n > uint64(len(as.Elems)) {
				b.unsup = "slice of composites out of range"
				return "nil"
			}
			var fs []string
			for _, e := range as.Elems[off : off+n] {
				fs = append(fs, b.lit(e, st.Elem()))
			}
			return fmt.Sprintf("%s{%s}", ts, strings.Join(fs, ", "))
		}
		arr, ok := b.heap[x.Obj].(sym.ArrV)
		if !ok {
			b.unsup = "slice backing"
			return "nil"
		}
		es := b.elems(arr.C, b.scalar(x.Off), cp)
		if cp == n {
			return fmt.Sprintf("%s{%s}", ts, joinElems(es, st.Elem(), b))
		}
		return fmt.Sprintf("(%s{%s})[:%d]", ts, joinElems(es, st.Elem(), b), n)
	}
	b.unsup = fmt.Sprintf("value %T", v)
	return "nil"
}

func joinElems(es []uint64, et types.Type, b *litBuilder) string {
	// trailing zeros are omitted only for arrays; keep all for slices (length matters)
	var s []string
	for _, e := range es {
		if sym.IsBool(et) {
			if e != 0 {
				s = append(s, "true")
			} else {
				s = append(s, "false")
			}
			continue
		}
		s = append(s, fmt.Sprintf("0x%x", e))
	}
	return strings.Join(s, ", ")
}

// Replay builds concrete inputs from the solver model, runs the real function through `go test -overlay`
// and reports whether the real code misbehaved (panic / timeout / failed check expression).
func Replay(w *World, o *Outcome, replayJSON string) *ReplayResult {
	if o.Entry == nil || o.Entry.Fn == nil {
		return &ReplayResult{Reason: "no entry information for this obligation"}
	}
	fn := o.Entry.Fn
	if fn.Pkg == nil {
		return &ReplayResult{Reason: "function has no package"}
	}
	pkg := fn.Pkg.Pkg
	b := &litBuilder{o: o, pkg: pkg, imports: map[string]string{"fmt": "fmt", "testing": "testing", "reflect": "reflect"}}
	var decl []string
	var argNames []string
	for i, p := range o.Entry.Params {
		b.heap = p.Heap
		nm := fmt.Sprintf("p%d_%s", i, sanitize(p.Name))
		decl = append(decl, fmt.Sprintf("\tvar %s %s = %s", nm, types.TypeString(p.Typ, b.qual), b.lit(p.Val, p.Typ)))
		argNames = append(argNames, nm)
	}
	if b.unsup != "" {
		return &ReplayResult{Reason: "model not convertible to Go values: " + b.unsup}
	}
	if b.tooBig {
		return &ReplayResult{Reason: "model needs a very large allocation; replay skipped"}
	}
	var call string
	sig := fn.Signature
	if sig.Recv() != nil {
		call = fmt.Sprintf("%s.%s(%s)", argNames[0], fn.Name(), strings.Join(argNames[1:], ", "))
	} else {
		call = fmt.Sprintf("%s(%s)", fn.Name(), strings.Join(argNames, ", "))
	}
	if sig.Variadic() {
		call = strings.TrimSuffix(call, ")") + "...)"
	}
	var res []string
	for i := 0; i < sig.Results().Len(); i++ {
		res = append(res, fmt.Sprintf("r%d", i))
	}
	var sb strings.Builder
	sb.WriteString("\tdefer func() {\n\t\tif r := recover(); r != nil {\n\t\t\tfmt.Println(\"REPLAY-PANIC:\", r)\n\t\t\tt.FailNow()\n\t\t}\n\t}()\n")
	for _, d := range decl {
		sb.WriteString(d + "\n")
	}
	for _, a := range argNames {
		fmt.Fprintf(&sb, "\tfmt.Printf(\"REPLAY-ARG %s = %%#v\\n\", %s)\n", a, a)
	}
	var checkCond string
	usesSpec := false
	if ex, ok := o.Aux.(*sym.Expect); ok {
		b.imports["reflect"] = "reflect"
		var conds []string
		if ex.HasResult && len(res) == 1 {
			b.heap = ex.Heap
			conds = append(conds, fmt.Sprintf("reflect.DeepEqual(r0, %s)", b.lit(ex.Result, sig.Results().At(0).Type())))
		}
		for i, p := range o.Entry.Params {
			pv, ok := p.Val.(sym.PtrV)
			if !ok || pv.Obj == nil || len(pv.Path) > 0 || b.scalar(pv.Nil) != 0 {
				continue
			}
			b.heap = ex.Heap
			want := ex.Heap[pv.Obj]
			if want == nil {
				continue
			}
			conds = append(conds, fmt.Sprintf("reflect.DeepEqual(*%s, %s)", argNames[i], b.lit(want, p.Typ.Underlying().(*types.Pointer).Elem())))
		}
		if b.unsup == "" && !b.tooBig && len(conds) > 0 {
			checkCond = strings.Join(conds, " && ")
		}
		b.unsup = ""
	}
	if pc, ok := o.Aux.(*contract.PostCheck); ok {
		pre, cond, ok := pc.FC.GoCheck(pc.Index, argNames, res)
		if ok {
			for _, p := range pre {
				fmt.Fprintf(&sb, "\t%s\n", p)
			}
			checkCond = cond
			if strings.Contains(cond, "spec.") || strings.Contains(strings.Join(pre, " "), "spec.") {
				usesSpec = true
				b.imports["verif/spec"] = "spec"
			}
		}
	}
	if len(res) > 0 {
		fmt.Fprintf(&sb, "\t%s := %s\n", strings.Join(res, ", "), call)
		for _, r := range res {
			fmt.Fprintf(&sb, "\tfmt.Printf(\"REPLAY-RESULT %s = %%#v\\n\", %s)\n", r, r)
		}
	} else {
		fmt.Fprintf(&sb, "\t%s\n", call)
	}
	for _, a := range argNames {
		fmt.Fprintf(&sb, "\tfmt.Printf(\"REPLAY-AFTER %s = %%#v\\n\", %s)\n", a, a)
	}
	if checkCond != "" {
		fmt.Fprintf(&sb, "\tif !(%s) {\n\t\tfmt.Println(\"REPLAY-POSTCONDITION-FALSE: %s\")\n\t\tt.FailNow()\n\t}\n\tfmt.Println(\"REPLAY-POSTCONDITION-HOLDS\")\n", checkCond, strings.ReplaceAll(checkCond, "\"", "'"))
	}
	sb.WriteString("}\n")
	body := sb.String()
	sb.Reset()
	fmt.Fprintf(&sb, "package %s\n\nimport (\n", pkg.Name())
	var imps []string
	for p := range b.imports {
		imps = append(imps, p)
	}
	sort.Strings(imps)
	for _, p := range imps {
		fmt.Fprintf(&sb, "\t%q\n", p)
	}
	sb.WriteString(")\n\n" + replayHelpers)
	fmt.Fprintf(&sb, "// obligation: %s\nfunc TestVerifReplay(t *testing.T) {\n", o.Name)
	sb.WriteString(body)
	base := strings.TrimSuffix(replayJSON, ".json")
	testFile := base + "_test.go"
	os.WriteFile(testFile, []byte(sb.String()), 0o644)
	rel := strings.TrimPrefix(strings.TrimPrefix(pkg.Path(), ModPath), "/")
	target := filepath.Join(RepoDir, rel, "zz_verif_replay_test.go")
	ov := map[string]map[string]string{"Replace": {target: testFile}}
	if usesSpec {
		// make the executable specification importable: go.mod of the replay gets a local replace (overlay only)
		if gm, err := os.ReadFile(filepath.Join(RepoDir, "go.mod")); err == nil {
			gmFile := base + ".go.mod"
			os.WriteFile(gmFile, []byte(string(gm)+"\nrequire verif/spec v0.0.0\n\nreplace verif/spec => "+filepath.Join(VerifDir, "spec")+"\n"), 0o644)
			ov["Replace"][filepath.Join(RepoDir, "go.mod")] = gmFile
		}
	}
	ovData, _ := json.Marshal(ov)
	ovFile := base + ".overlay.json"
	os.WriteFile(ovFile, ovData, 0o644)
	to := 60 * time.Second
	isHang := o.Kind == "variant" || o.Kind == "unwind"
	ctx, cancel := context.WithTimeout(context.Background(), to+60*time.Second)
	defer cancel()
	testTO := "60s"
	if isHang {
		testTO = "10s"
	}
	args := []string{"test", "-tags", "verif", "-overlay", ovFile, "-vet=off", "-count=1", "-timeout", testTO, "-v", "-run", "^TestVerifReplay$", "./" + rel}
	cmd := exec.CommandContext(ctx, "bash", "-c", "ulimit -v 8000000; exec go "+strings.Join(quoteAll(args), " "))
	cmd.Dir = RepoDir
	cmd.Env = append(os.Environ(), "GOFLAGS=-mod=mod", "GOPROXY=off", "GOSUMDB=off", "GOTOOLCHAIN=local")
	out, _ := cmd.CombinedOutput()
	rr := &ReplayResult{Test: testFile, Cmd: "cd /repo && go " + strings.Join(args, " "), Output: trunc(string(out), 4000)}
	s := string(out)
	switch {
	case strings.Contains(s, "REPLAY-PANIC:") || strings.Contains(s, "panic:") && !strings.Contains(s, "test timed out"):
		rr.Confirmed = strings.HasPrefix(o.Kind, "safety") || o.Kind == "pre"
		rr.Reason = "real code panicked on the model input"
		if !rr.Confirmed {
			rr.Reason += " (obligation kind " + o.Kind + ")"
			rr.Confirmed = true
		}
	case strings.Contains(s, "test timed out") || strings.Contains(s, "fatal error: runtime: out of memory") || strings.Contains(s, "cannot allocate memory"):
		rr.Confirmed = isHang || strings.Contains(s, "out of memory") || strings.Contains(s, "cannot allocate")
		rr.Reason = "real code did not terminate within the watchdog / exhausted memory on the model input"
	case strings.Contains(s, "REPLAY-POSTCONDITION-FALSE"):
		rr.Confirmed = true
		rr.Reason = "postcondition evaluated to false on the real code with the model input"
	case strings.Contains(s, "REPLAY-POSTCONDITION-HOLDS"):
		rr.Confirmed = false
		rr.Reason = "postcondition held on the real code with the model input (not reproduced)"
	case strings.Contains(s, "REPLAY-RESULT") || strings.Contains(s, "REPLAY-AFTER"):
		rr.Reason = "real code ran to completion on the model input; outputs recorded (contract mismatch is established by the solver model over these inputs)"
		rr.Confirmed = false
		rr.Reason = "real code ran to completion on the model input; outputs recorded, but no executable form of the violated clause was available to evaluate on them (not confirmed)"
		if strings.HasPrefix(o.Kind, "safety") || o.Kind == "variant" {
			rr.Confirmed = false
			rr.Reason = "model input did not make the real code panic/hang (not reproduced)"
		}
	default:
		rr.Reason = "replay did not build or run"
	}
	return rr
}

// helpers available to the executable form of a contract clause
const replayHelpers = `func verifIte[T any](c bool, a, b T) T {
	if c {
		return a
	}
	return b
}

func verifEq(a, b interface{}) bool {
	va, vb := reflect.ValueOf(a), reflect.ValueOf(b)
	if va.Kind() == reflect.Slice && vb.Kind() == reflect.Slice && va.Len() == 0 && vb.Len() == 0 {
		return true
	}
	return reflect.DeepEqual(a, b)
}

var _ = verifEq
var _ = verifIte[int]

`

func sanitize(s string) string {
	var b strings.Builder
	for _, c := range s {
		if c >= 'a' && c <= 'z' || c >= 'A' && c <= 'Z' || c >= '0' && c <= '9' || c == '_' {
			b.WriteRune(c)
		}
	}
	return b.String()
}

func quoteAll(a []string) []string {
	var out []string
	for _, x := range a {
		out = append(out, "'"+strings.ReplaceAll(x, "'", "'\\''")+"'")
	}
	return out
}
