package smt

import "fmt"

// Eval evaluates a term under a model (scalar variables by name, array variables by prefix of elements;
// array elements beyond the known prefix read as 0). Returns ok=false if the term contains something
// that cannot be evaluated (uninterpreted functions, Int arithmetic on unknowns).
func Eval(t *Term, model map[string]uint64, arrs map[string][]uint64) (v uint64, ok bool) {
	memo := map[uint64]*Term{}
	var rec func(t *Term) *Term
	rec = func(t *Term) *Term {
		if r, ok := memo[t.id]; ok {
			return r
		}
		var r *Term
		switch t.Op {
		case "const":
			r = t
		case "var":
			switch t.S.K {
			case KArr:
				r = t
			case KBool:
				r = BoolC(model[t.Name] != 0)
			case KInt:
				r = IntC(int64(model[t.Name]))
			default:
				r = BVC(t.S.W, model[t.Name])
			}
		case "select":
			a := rec(t.Args[0])
			i := rec(t.Args[1])
			if a.Op == "var" && i.IsConst() {
				m := arrs[a.Name]
				if i.Val < uint64(len(m)) {
					r = BVC(t.S.W, m[i.Val])
				} else {
					r = BVC(t.S.W, 0)
				}
			} else {
				r = Select(a, i)
				if !r.IsConst() && r.Op == "select" && r.Args[0].Op == "store" {
					// walk store chain with constant indices
					b := r.Args[0]
					for b.Op == "store" {
						b = b.Args[0]
					}
					if b.Op == "var" && i.IsConst() {
						m := arrs[b.Name]
						if i.Val < uint64(len(m)) {
							r = BVC(t.S.W, m[i.Val])
						} else {
							r = BVC(t.S.W, 0)
						}
					}
				}
			}
		default:
			args := make([]*Term, len(t.Args))
			for i, a := range t.Args {
				args[i] = rec(a)
			}
			r = rebuild(t, args)
		}
		memo[t.id] = r
		return r
	}
	r := rec(t)
	if r.IsConst() {
		return r.Val, true
	}
	return 0, false
}

func rebuild(t *Term, a []*Term) *Term {
	switch t.Op {
	case "not":
		return Not(a[0])
	case "and":
		return And(a...)
	case "or":
		return Or(a...)
	case "ite":
		return Ite(a[0], a[1], a[2])
	case "=":
		return Eq(a[0], a[1])
	case "bvadd", "bvsub", "bvmul", "bvand", "bvor", "bvxor", "bvshl", "bvlshr", "bvashr", "bvudiv", "bvurem", "bvsdiv", "bvsrem":
		return bvbin(t.Op, a[0], a[1])
	case "bvnot":
		return BNot(a[0])
	case "bvneg":
		return Neg(a[0])
	case "bvult", "bvule", "bvslt", "bvsle":
		return cmp(t.Op, a[0], a[1])
	case "extract":
		return Extract(t.P1, t.P2, a[0])
	case "zero_extend":
		return ZExt(t.S.W, a[0])
	case "sign_extend":
		return SExt(t.S.W, a[0])
	case "concat":
		return Concat(a[0], a[1])
	case "select":
		return Select(a[0], a[1])
	case "store":
		return Store(a[0], a[1], a[2])
	case "constarr":
		return ConstArr(t.S, a[0])
	case "+":
		return IAdd(a[0], a[1])
	case "-":
		return ISub(a[0], a[1])
	case "*":
		return IMul(a[0], a[1])
	case "<=":
		return ILe(a[0], a[1])
	case "<":
		return ILt(a[0], a[1])
	case "bv2nat":
		return BV2Nat(a[0])
	case "app":
		return App(t.Name, t.S, a...)
	case "mod":
		return IMod(a[0], a[1])
	case "div":
		return IDiv(a[0], a[1])
	}
	panic(fmt.Sprintf("rebuild: unknown op %s", t.Op))
}

// Subst replaces variables by terms.
func Subst(t *Term, m map[*Term]*Term) *Term {
	memo := map[uint64]*Term{}
	var rec func(t *Term) *Term
	rec = func(t *Term) *Term {
		if r, ok := memo[t.id]; ok {
			return r
		}
		var r *Term
		if s, ok := m[t]; ok {
			r = s
		} else if len(t.Args) == 0 {
			r = t
		} else {
			args := make([]*Term, len(t.Args))
			ch := false
			for i, a := range t.Args {
				args[i] = rec(a)
				if args[i] != a {
					ch = true
				}
			}
			if ch {
				r = rebuild(t, args)
			} else {
				r = t
			}
		}
		memo[t.id] = r
		return r
	}
	return rec(t)
}
