package smt

import (
	"bytes"
	"context"
	"fmt"
	"os/exec"
	"regexp"
	"strconv"
	"strings"
	"sync"
	"sync/atomic"
	"time"
)

type Result struct {
	Status   string // unsat | sat | unknown | timeout | error
	Solver   string
	Model    map[string]uint64   // scalar variables (Bool as 0/1)
	ArrModel map[string][]uint64 // first ArrPrefix elements of array variables
	Seconds  float64
	Raw      string
	Script   string
	Agree    []string // solvers that answered the same (thorough tier)
}

const ArrPrefix = 40

type Options struct {
	Timeout   time.Duration
	Seed      int
	TwoUnsat  bool // require two independent unsat answers when possible
	Logic     string
	Extra     []string
	ArrLens   map[string]*Term // optional: for array var name, a term giving number of elements worth reading
	NoCVC5    bool
	OnlyFirst bool
}

var SolverTime int64 // nanoseconds, summed over all solver processes
var SolverCalls int64

type solverSpec struct {
	name string
	argv func(timeoutMs int, seed int) []string
}

var solvers = []solverSpec{
	{"z3-new", func(ms, seed int) []string {
		return []string{"z3-new", "-in", "-smt2", fmt.Sprintf("-t:%d", ms), fmt.Sprintf("smt.random_seed=%d", seed), fmt.Sprintf("sat.random_seed=%d", seed)}
	}},
	{"z3", func(ms, seed int) []string {
		return []string{"z3", "-in", "-smt2", fmt.Sprintf("-t:%d", ms), fmt.Sprintf("smt.random_seed=%d", seed), fmt.Sprintf("sat.random_seed=%d", seed)}
	}},
	{"cvc5", func(ms, seed int) []string {
		return []string{"cvc5", "--lang=smt2", fmt.Sprintf("--tlimit=%d", ms), fmt.Sprintf("--seed=%d", seed), "--produce-models", "--bv-solver=bitblast"}
	}},
}

var procSem = make(chan struct{}, 16)

func runOne(ctx context.Context, sp solverSpec, script string, timeout time.Duration, seed int) (status, out string, secs float64) {
	procSem <- struct{}{}
	defer func() { <-procSem }()
	if ctx.Err() != nil {
		return "cancelled", "", 0
	}
	ms := int(timeout / time.Millisecond)
	argv := sp.argv(ms, seed)
	cctx, cancel := context.WithTimeout(ctx, timeout+2*time.Second)
	defer cancel()
	cmd := exec.CommandContext(cctx, argv[0], argv[1:]...)
	cmd.Stdin = strings.NewReader(script)
	var ob bytes.Buffer
	cmd.Stdout = &ob
	cmd.Stderr = &ob
	t0 := time.Now()
	_ = cmd.Run()
	d := time.Since(t0)
	atomic.AddInt64(&SolverTime, int64(d))
	atomic.AddInt64(&SolverCalls, 1)
	out = ob.String()
	first := strings.TrimSpace(strings.SplitN(strings.TrimSpace(out), "\n", 2)[0])
	switch first {
	case "unsat", "sat", "unknown":
		status = first
	case "timeout":
		status = "timeout"
	default:
		if ctx.Err() != nil {
			status = "cancelled"
		} else if cctx.Err() != nil {
			status = "timeout"
		} else if strings.Contains(out, "timeout") || strings.Contains(out, "interrupted") {
			status = "timeout"
		} else {
			status = "error"
		}
	}
	return status, out, d.Seconds()
}

// Solve checks satisfiability of the conjunction of asserts.
func Solve(asserts []*Term, opt Options) Result {
	if opt.Timeout == 0 {
		opt.Timeout = 10 * time.Second
	}
	// trivial cases
	conj := And(asserts...)
	if conj.IsFalse() {
		return Result{Status: "unsat", Solver: "simplifier"}
	}
	sc := &Script{Asserts: []*Term{conj}, Logic: opt.Logic, Extra: opt.Extra}
	if conj.Op == "and" {
		sc.Asserts = conj.Args
	}
	base := sc.Render(false)
	// strip trailing (check-sat) to append value queries
	vars, _ := CollectVars(sc.Asserts)
	var gv strings.Builder
	gv.WriteString("(check-sat)\n")
	var scal []string
	for _, v := range vars {
		if v.S.K != KArr {
			scal = append(scal, QuoteName(v.Name))
		}
	}
	if len(scal) > 0 {
		fmt.Fprintf(&gv, "(get-value (%s))\n", strings.Join(scal, " "))
	}
	for _, v := range vars {
		if v.S.K == KArr {
			var sel []string
			for i := 0; i < ArrPrefix; i++ {
				sel = append(sel, fmt.Sprintf("(select %s %s)", QuoteName(v.Name), constStr(BVC(v.S.IdxW, uint64(i)))))
			}
			fmt.Fprintf(&gv, "(get-value (%s))\n", strings.Join(sel, " "))
		}
	}
	script := "(set-option :produce-models true)\n" + strings.Replace(base, "(check-sat)\n", gv.String(), 1)

	type ans struct {
		sp          solverSpec
		status, out string
		secs        float64
	}
	t0 := time.Now()
	try := func(sps []solverSpec, to time.Duration) []ans {
		ctx, cancel := context.WithCancel(context.Background())
		defer cancel()
		ch := make(chan ans, len(sps))
		var wg sync.WaitGroup
		for _, sp := range sps {
			wg.Add(1)
			go func(sp solverSpec) {
				defer wg.Done()
				st, out, s := runOne(ctx, sp, script, to, opt.Seed)
				ch <- ans{sp, st, out, s}
			}(sp)
		}
		var got []ans
		need := 1
		if opt.TwoUnsat {
			need = 2
		}
		definitive := 0
		for range sps {
			a := <-ch
			got = append(got, a)
			if a.status == "sat" {
				cancel()
				break
			}
			if a.status == "unsat" {
				definitive++
				if definitive >= need {
					cancel()
					break
				}
			}
		}
		go func() { wg.Wait() }()
		return got
	}
	pick := func(got []ans) (Result, bool) {
		var unsats []string
		for _, a := range got {
			if a.status == "sat" {
				r := Result{Status: "sat", Solver: a.sp.name, Raw: a.out, Script: script}
				r.Model, r.ArrModel = parseValues(a.out, vars)
				return r, true
			}
			if a.status == "unsat" {
				unsats = append(unsats, a.sp.name)
			}
		}
		if len(unsats) > 0 {
			return Result{Status: "unsat", Solver: unsats[0], Agree: unsats, Script: script}, true
		}
		return Result{}, false
	}
	var all []ans
	sps := solvers
	if opt.NoCVC5 {
		sps = solvers[:2]
	}
	if !opt.TwoUnsat {
		// stage 1: z3-new alone, short
		st1 := opt.Timeout / 4
		if st1 > 3*time.Second {
			st1 = 3 * time.Second
		}
		got := try(sps[:1], st1)
		all = append(all, got...)
		if r, ok := pick(got); ok {
			r.Seconds = time.Since(t0).Seconds()
			return r
		}
		if opt.OnlyFirst {
			return Result{Status: "unknown", Solver: "z3-new", Seconds: time.Since(t0).Seconds(), Script: script}
		}
	}
	got := try(sps, opt.Timeout)
	all = append(all, got...)
	if r, ok := pick(got); ok {
		r.Seconds = time.Since(t0).Seconds()
		return r
	}
	st := "unknown"
	var raws []string
	for _, a := range all {
		if a.status == "timeout" {
			st = "timeout"
		}
		o := a.out
		if len(o) > 300 {
			o = o[:300]
		}
		raws = append(raws, a.sp.name+": "+a.status+": "+o)
	}
	return Result{Status: st, Solver: "portfolio", Raw: strings.Join(raws, "\n"), Seconds: time.Since(t0).Seconds(), Script: script}
}

var reVal = regexp.MustCompile(`\(\s*(\|[^|]*\||[^\s()]+)\s+(#x[0-9a-fA-F]+|#b[01]+|true|false|\(- \d+\)|\d+)\s*\)`)
var reSel = regexp.MustCompile(`\(\s*\(select\s+(\|[^|]*\||[^\s()]+)\s+(#x[0-9a-fA-F]+|#b[01]+)\)\s+(#x[0-9a-fA-F]+|#b[01]+)\s*\)`)

func parseLit(s string) uint64 {
	switch {
	case s == "true":
		return 1
	case s == "false":
		return 0
	case strings.HasPrefix(s, "#x"):
		v, _ := strconv.ParseUint(s[2:], 16, 64)
		return v
	case strings.HasPrefix(s, "#b"):
		v, _ := strconv.ParseUint(s[2:], 2, 64)
		return v
	case strings.HasPrefix(s, "(- "):
		v, _ := strconv.ParseInt(strings.TrimSuffix(s[3:], ")"), 10, 64)
		return uint64(-v)
	default:
		v, _ := strconv.ParseInt(s, 10, 64)
		return uint64(v)
	}
}

func parseValues(out string, vars []*Term) (map[string]uint64, map[string][]uint64) {
	m := map[string]uint64{}
	am := map[string][]uint64{}
	byq := map[string]string{}
	for _, v := range vars {
		byq[QuoteName(v.Name)] = v.Name
	}
	for _, mm := range reSel.FindAllStringSubmatch(out, -1) {
		name, ok := byq[mm[1]]
		if !ok {
			continue
		}
		idx := parseLit(mm[2])
		a := am[name]
		for uint64(len(a)) <= idx {
			a = append(a, 0)
		}
		a[idx] = parseLit(mm[3])
		am[name] = a
	}
	for _, mm := range reVal.FindAllStringSubmatch(out, -1) {
		if name, ok := byq[mm[1]]; ok {
			m[name] = parseLit(mm[2])
		}
	}
	return m, am
}
