// Package smt: hash-consed SMT terms with eager simplification and SMT-LIB 2 printing.
package smt

import (
	"fmt"
	"math/bits"
	"sort"
	"strings"
	"sync"
)

type Kind uint8

const (
	KBool Kind = iota
	KBV
	KInt
	KArr // array BV(IdxW) -> BV(W)
)

type Sort struct {
	K    Kind
	W    int // BV width, or element width for arrays
	IdxW int // arrays
}

var Bool = Sort{K: KBool}
var Int = Sort{K: KInt}

func BV(w int) Sort       { return Sort{K: KBV, W: w} }
func Arr(iw, ew int) Sort { return Sort{K: KArr, W: ew, IdxW: iw} }
func (s Sort) String() string {
	switch s.K {
	case KBool:
		return "Bool"
	case KInt:
		return "Int"
	case KBV:
		return fmt.Sprintf("(_ BitVec %d)", s.W)
	default:
		return fmt.Sprintf("(Array (_ BitVec %d) (_ BitVec %d))", s.IdxW, s.W)
	}
}

type Term struct {
	Op   string // "const","var","app", or SMT operator name
	S    Sort
	Args []*Term
	Val  uint64 // const value (BV ≤ 64 bits, Bool 0/1, Int as int64 bits)
	Name string // var / uf name; for extract: "hi:lo"; for extend: amount
	P1   int    // extract hi / extend amount
	P2   int    // extract lo
	id   uint64
	size int // dag-ish size estimate
}

var (
	mu     sync.Mutex
	table  = map[string]*Term{}
	nextID uint64
)

func key(op string, s Sort, name string, val uint64, p1, p2 int, args []*Term) string {
	var b strings.Builder
	b.Grow(32 + 8*len(args))
	fmt.Fprintf(&b, "%s|%d.%d.%d|%s|%d|%d|%d", op, s.K, s.W, s.IdxW, name, val, p1, p2)
	for _, a := range args {
		fmt.Fprintf(&b, "|%d", a.id)
	}
	return b.String()
}

func mk(op string, s Sort, name string, val uint64, p1, p2 int, args ...*Term) *Term {
	k := key(op, s, name, val, p1, p2, args)
	mu.Lock()
	defer mu.Unlock()
	if t, ok := table[k]; ok {
		return t
	}
	nextID++
	sz := 1
	for _, a := range args {
		sz += a.size
		if sz > 1<<40 {
			sz = 1 << 40
		}
	}
	t := &Term{Op: op, S: s, Args: append([]*Term(nil), args...), Val: val, Name: name, P1: p1, P2: p2, id: nextID, size: sz}
	table[k] = t
	return t
}

func (t *Term) ID() uint64    { return t.id }
func (t *Term) IsConst() bool { return t.Op == "const" }
func (t *Term) Size() int     { return t.size }

func mask(w int) uint64 {
	if w >= 64 {
		return ^uint64(0)
	}
	return (uint64(1) << uint(w)) - 1
}

// ---- constructors ----

var True = mk("const", Bool, "", 1, 0, 0)
var False = mk("const", Bool, "", 0, 0, 0)

func BoolC(b bool) *Term {
	if b {
		return True
	}
	return False
}
func BVC(w int, v uint64) *Term { return mk("const", BV(w), "", v&mask(w), 0, 0) }
func IntC(v int64) *Term        { return mk("const", Int, "", uint64(v), 0, 0) }
func Var(name string, s Sort) *Term {
	return mk("var", s, name, 0, 0, 0)
}
func App(name string, s Sort, args ...*Term) *Term { return mk("app", s, name, 0, 0, 0, args...) }

func (t *Term) IsTrue() bool  { return t == True }
func (t *Term) IsFalse() bool { return t == False }

func sext(v uint64, w int) int64 {
	if w >= 64 {
		return int64(v)
	}
	if v&(1<<uint(w-1)) != 0 {
		return int64(v | ^mask(w))
	}
	return int64(v)
}

func Not(a *Term) *Term {
	if a.IsConst() {
		return BoolC(a.Val == 0)
	}
	if a.Op == "not" {
		return a.Args[0]
	}
	return mk("not", Bool, "", 0, 0, 0, a)
}

func And(as ...*Term) *Term {
	var out []*Term
	seen := map[uint64]bool{}
	var add func(t *Term) bool
	add = func(t *Term) bool {
		if t.IsFalse() {
			return false
		}
		if t.IsTrue() || seen[t.id] {
			return true
		}
		if t.Op == "and" {
			for _, x := range t.Args {
				if !add(x) {
					return false
				}
			}
			return true
		}
		seen[t.id] = true
		out = append(out, t)
		return true
	}
	for _, a := range as {
		if !add(a) {
			return False
		}
	}
	for _, o := range out {
		if o.Op == "not" && seen[o.Args[0].id] {
			return False
		}
	}
	if len(out) == 0 {
		return True
	}
	if len(out) == 1 {
		return out[0]
	}
	return mk("and", Bool, "", 0, 0, 0, out...)
}

func Or(as ...*Term) *Term {
	var out []*Term
	seen := map[uint64]bool{}
	var add func(t *Term) bool
	add = func(t *Term) bool {
		if t.IsTrue() {
			return false
		}
		if t.IsFalse() || seen[t.id] {
			return true
		}
		if t.Op == "or" {
			for _, x := range t.Args {
				if !add(x) {
					return false
				}
			}
			return true
		}
		seen[t.id] = true
		out = append(out, t)
		return true
	}
	for _, a := range as {
		if !add(a) {
			return True
		}
	}
	for _, o := range out {
		if o.Op == "not" && seen[o.Args[0].id] {
			return True
		}
	}
	if len(out) == 0 {
		return False
	}
	if len(out) == 1 {
		return out[0]
	}
	return mk("or", Bool, "", 0, 0, 0, out...)
}

func Implies(a, b *Term) *Term { return Or(Not(a), b) }

func Ite(c, a, b *Term) *Term {
	if c.IsTrue() {
		return a
	}
	if c.IsFalse() {
		return b
	}
	if a == b {
		return a
	}
	if a.S != b.S {
		panic(fmt.Sprintf("ite sort mismatch %v %v", a.S, b.S))
	}
	if a.S.K == KBool {
		if a.IsTrue() && b.IsFalse() {
			return c
		}
		if a.IsFalse() && b.IsTrue() {
			return Not(c)
		}
		if a.IsTrue() {
			return Or(c, b)
		}
		if a.IsFalse() {
			return And(Not(c), b)
		}
		if b.IsTrue() {
			return Or(Not(c), a)
		}
		if b.IsFalse() {
			return And(c, a)
		}
	}
	if c.Op == "not" {
		return Ite(c.Args[0], b, a)
	}
	// ite(c, x, ite(c, y, z)) = ite(c,x,z)
	if b.Op == "ite" && b.Args[0] == c {
		return Ite(c, a, b.Args[2])
	}
	if a.Op == "ite" && a.Args[0] == c {
		return Ite(c, a.Args[1], b)
	}
	return mk("ite", a.S, "", 0, 0, 0, c, a, b)
}

func Eq(a, b *Term) *Term {
	if a == b {
		return True
	}
	if a.S != b.S {
		panic(fmt.Sprintf("eq sort mismatch %v %v : %s vs %s", a.S, b.S, a.Short(), b.Short()))
	}
	if a.IsConst() && b.IsConst() {
		return BoolC(a.Val == b.Val)
	}
	if a.S.K == KBool {
		if a.IsConst() {
			a, b = b, a
		}
		if b.IsTrue() {
			return a
		}
		if b.IsFalse() {
			return Not(a)
		}
	}
	// a constant with a 1 where the other side is known to be 0
	if a.S.K == KBV && a.S.W <= 64 {
		if b.IsConst() && b.Val&knownZero(a) != 0 {
			return False
		}
		if a.IsConst() && a.Val&knownZero(b) != 0 {
			return False
		}
	}
	// eq(ite(c, k1, k2), k) with constants
	if b.IsConst() && a.Op == "ite" && a.Args[1].IsConst() && a.Args[2].IsConst() {
		return Ite(a.Args[0], Eq(a.Args[1], b), Eq(a.Args[2], b))
	}
	if a.IsConst() && b.Op == "ite" && b.Args[1].IsConst() && b.Args[2].IsConst() {
		return Ite(b.Args[0], Eq(b.Args[1], a), Eq(b.Args[2], a))
	}
	// zero_extend(x) == const
	if b.IsConst() && a.Op == "zero_extend" {
		x := a.Args[0]
		if b.Val&^mask(x.S.W) != 0 {
			return False
		}
		return Eq(x, BVC(x.S.W, b.Val))
	}
	if a.IsConst() && b.Op == "zero_extend" {
		return Eq(b, a)
	}
	if a.id > b.id {
		a, b = b, a
	}
	return mk("=", Bool, "", 0, 0, 0, a, b)
}

func Ne(a, b *Term) *Term { return Not(Eq(a, b)) }

func bvbin(op string, a, b *Term) *Term {
	if a.S != b.S || a.S.K != KBV {
		panic(fmt.Sprintf("%s sort mismatch %v %v: %s , %s", op, a.S, b.S, a.Short(), b.Short()))
	}
	w := a.S.W
	m := mask(w)
	if a.IsConst() && b.IsConst() {
		x, y := a.Val, b.Val
		var r uint64
		switch op {
		case "bvadd":
			r = x + y
		case "bvsub":
			r = x - y
		case "bvmul":
			r = x * y
		case "bvand":
			r = x & y
		case "bvor":
			r = x | y
		case "bvxor":
			r = x ^ y
		case "bvshl":
			if y >= uint64(w) {
				r = 0
			} else {
				r = x << y
			}
		case "bvlshr":
			if y >= uint64(w) {
				r = 0
			} else {
				r = x >> y
			}
		case "bvashr":
			sx := sext(x, w)
			if y >= uint64(w) {
				if sx < 0 {
					r = m
				} else {
					r = 0
				}
			} else {
				r = uint64(sx >> y)
			}
		case "bvudiv":
			if y == 0 {
				r = m
			} else {
				r = x / y
			}
		case "bvurem":
			if y == 0 {
				r = x
			} else {
				r = x % y
			}
		case "bvsdiv":
			sx, sy := sext(x, w), sext(y, w)
			if sy == 0 {
				if sx < 0 {
					r = 1
				} else {
					r = m
				}
			} else if sy == -1 {
				r = uint64(-sx)
			} else {
				r = uint64(sx / sy)
			}
		case "bvsrem":
			sx, sy := sext(x, w), sext(y, w)
			if sy == 0 {
				r = x
			} else if sy == -1 {
				r = 0
			} else {
				r = uint64(sx % sy)
			}
		default:
			panic(op)
		}
		return BVC(w, r)
	}
	// identities
	zero := func(t *Term) bool { return t.IsConst() && t.Val == 0 }
	ones := func(t *Term) bool { return t.IsConst() && t.Val == m }
	switch op {
	case "bvadd":
		if zero(a) {
			return b
		}
		if zero(b) {
			return a
		}
		if a.IsConst() { // constants to the right
			a, b = b, a
		}
		// (x + c1) + c2
		if b.IsConst() && a.Op == "bvadd" && a.Args[1].IsConst() {
			return bvbin("bvadd", a.Args[0], BVC(w, a.Args[1].Val+b.Val))
		}
	case "bvsub":
		if zero(b) {
			return a
		}
		if a == b {
			return BVC(w, 0)
		}
		if b.IsConst() {
			return bvbin("bvadd", a, BVC(w, -b.Val))
		}
	case "bvmul":
		if zero(a) || zero(b) {
			return BVC(w, 0)
		}
		if a.IsConst() && a.Val == 1 {
			return b
		}
		if b.IsConst() && b.Val == 1 {
			return a
		}
		if a.IsConst() {
			a, b = b, a
		}
		if b.IsConst() && b.Val&(b.Val-1) == 0 {
			sh := 0
			for (b.Val>>uint(sh))&1 == 0 {
				sh++
			}
			return bvbin("bvshl", a, BVC(w, uint64(sh)))
		}
	case "bvand":
		if zero(a) || zero(b) {
			return BVC(w, 0)
		}
		if ones(a) {
			return b
		}
		if ones(b) {
			return a
		}
		if a == b {
			return a
		}
		if a.IsConst() {
			a, b = b, a
		}
		if b.IsConst() && a.Op == "bvand" && a.Args[1].IsConst() {
			return bvbin("bvand", a.Args[0], BVC(w, a.Args[1].Val&b.Val))
		}
		if b.IsConst() && w <= 64 {
			ones1 := ^knownZero(a) & m // bits of a that can be 1
			if ones1&b.Val == 0 {
				return BVC(w, 0)
			}
			if ones1&^b.Val == 0 {
				return a
			}
			if a.Op == "bvor" {
				return bvbin("bvor", bvbin("bvand", a.Args[0], b), bvbin("bvand", a.Args[1], b))
			}
		}
		// zero_extend(x) & c where c covers all of x's bits
		if b.IsConst() && a.Op == "zero_extend" {
			xw := a.Args[0].S.W
			if b.Val&mask(xw) == mask(xw) {
				return a
			}
			if b.Val&mask(xw) == 0 {
				return BVC(w, 0)
			}
		}
	case "bvor":
		if zero(a) {
			return b
		}
		if zero(b) {
			return a
		}
		if ones(a) || ones(b) {
			return BVC(w, m)
		}
		if a == b {
			return a
		}
	case "bvxor":
		if zero(a) {
			return b
		}
		if zero(b) {
			return a
		}
		if a == b {
			return BVC(w, 0)
		}
	case "bvshl", "bvlshr":
		if zero(b) {
			return a
		}
		if zero(a) {
			return a
		}
		if b.IsConst() && b.Val >= uint64(w) {
			return BVC(w, 0)
		}
		if op == "bvlshr" && b.IsConst() && w <= 64 {
			if (^knownZero(a)&m)>>b.Val == 0 {
				return BVC(w, 0)
			}
			if a.Op == "bvshl" && a.Args[1] == b { // (x << k) >> k
				return bvbin("bvand", a.Args[0], BVC(w, m>>b.Val))
			}
			if a.Op == "bvor" {
				return bvbin("bvor", bvbin("bvlshr", a.Args[0], b), bvbin("bvlshr", a.Args[1], b))
			}
		}
	case "bvashr":
		if zero(b) || zero(a) {
			return a
		}
	case "bvudiv":
		if b.IsConst() && b.Val == 1 {
			return a
		}
	}
	return mk(op, a.S, "", 0, 0, 0, a, b)
}

// knownZero returns the bits of a bit-vector term (width <= 64) that are 0 in every model.
func knownZero(t *Term) uint64 {
	if t.S.K != KBV || t.S.W > 64 {
		return 0
	}
	m := mask(t.S.W)
	if t.IsConst() {
		return ^t.Val & m
	}
	kzMu.Lock()
	v, ok := kzMemo[t.id]
	kzMu.Unlock()
	if ok {
		return v
	}
	var r uint64
	switch t.Op {
	case "zero_extend":
		xw := t.Args[0].S.W
		r = (m &^ mask(xw)) | knownZero(t.Args[0])
	case "bvshl":
		if k := t.Args[1]; k.IsConst() && k.Val < 64 {
			r = (knownZero(t.Args[0])<<k.Val | (uint64(1)<<k.Val - 1)) & m
		}
	case "bvlshr":
		if k := t.Args[1]; k.IsConst() && k.Val < 64 {
			r = (knownZero(t.Args[0]) >> k.Val) | (m &^ (m >> k.Val))
		}
	case "bvand":
		r = knownZero(t.Args[0]) | knownZero(t.Args[1])
	case "bvor", "bvxor":
		r = knownZero(t.Args[0]) & knownZero(t.Args[1])
	case "ite":
		r = knownZero(t.Args[1]) & knownZero(t.Args[2])
	case "bvadd":
		a, b := knownZero(t.Args[0]), knownZero(t.Args[1])
		if a|b == m { // no position where both can be 1: behaves like or
			r = a & b
		}
	case "extract":
		if t.Args[0].S.W <= 64 {
			r = (knownZero(t.Args[0]) >> uint(t.P2)) & m
		}
	}
	r &= m
	kzMu.Lock()
	kzMemo[t.id] = r
	kzMu.Unlock()
	return r
}

var (
	kzMu   sync.Mutex
	kzMemo = map[uint64]uint64{}
)

func Add(a, b *Term) *Term  { return bvbin("bvadd", a, b) }
func Sub(a, b *Term) *Term  { return bvbin("bvsub", a, b) }
func Mul(a, b *Term) *Term  { return bvbin("bvmul", a, b) }
func BAnd(a, b *Term) *Term { return bvbin("bvand", a, b) }
func BOr(a, b *Term) *Term  { return bvbin("bvor", a, b) }
func BXor(a, b *Term) *Term { return bvbin("bvxor", a, b) }
func Shl(a, b *Term) *Term  { return bvbin("bvshl", a, b) }
func LShr(a, b *Term) *Term { return bvbin("bvlshr", a, b) }
func AShr(a, b *Term) *Term { return bvbin("bvashr", a, b) }
func UDiv(a, b *Term) *Term { return bvbin("bvudiv", a, b) }
func URem(a, b *Term) *Term { return bvbin("bvurem", a, b) }
func SDiv(a, b *Term) *Term { return bvbin("bvsdiv", a, b) }
func SRem(a, b *Term) *Term { return bvbin("bvsrem", a, b) }

func BNot(a *Term) *Term {
	if a.IsConst() {
		return BVC(a.S.W, ^a.Val)
	}
	if a.Op == "bvnot" {
		return a.Args[0]
	}
	return mk("bvnot", a.S, "", 0, 0, 0, a)
}
func Neg(a *Term) *Term {
	if a.IsConst() {
		return BVC(a.S.W, -a.Val)
	}
	return mk("bvneg", a.S, "", 0, 0, 0, a)
}

func cmp(op string, a, b *Term) *Term {
	if a.S != b.S || a.S.K != KBV {
		panic(fmt.Sprintf("%s sort mismatch %v %v: %s, %s", op, a.S, b.S, a.Short(), b.Short()))
	}
	w := a.S.W
	if a.IsConst() && b.IsConst() {
		switch op {
		case "bvult":
			return BoolC(a.Val < b.Val)
		case "bvule":
			return BoolC(a.Val <= b.Val)
		case "bvslt":
			return BoolC(sext(a.Val, w) < sext(b.Val, w))
		case "bvsle":
			return BoolC(sext(a.Val, w) <= sext(b.Val, w))
		}
	}
	if a == b {
		return BoolC(op == "bvule" || op == "bvsle")
	}
	switch op {
	case "bvult":
		if b.IsConst() && b.Val == 0 {
			return False
		}
		if a.IsConst() && a.Val == mask(w) {
			return False
		}
	case "bvule":
		if a.IsConst() && a.Val == 0 {
			return True
		}
		if b.IsConst() && b.Val == mask(w) {
			return True
		}
	}
	// comparisons of zero-extended small values against constants
	if a.Op == "zero_extend" && b.IsConst() {
		xw := a.Args[0].S.W
		bv := b.Val
		if op == "bvslt" || op == "bvsle" {
			sb := sext(bv, w)
			if sb < 0 {
				return False
			}
		}
		if bv > mask(xw) {
			return True
		}
		nb := BVC(xw, bv)
		if op == "bvult" || op == "bvslt" {
			return cmp("bvult", a.Args[0], nb)
		}
		return cmp("bvule", a.Args[0], nb)
	}
	if b.Op == "zero_extend" && a.IsConst() {
		xw := b.Args[0].S.W
		av := a.Val
		if op == "bvslt" || op == "bvsle" {
			if sext(av, w) < 0 {
				return True
			}
		}
		if av > mask(xw) {
			return False
		}
		na := BVC(xw, av)
		if op == "bvult" || op == "bvslt" {
			return cmp("bvult", na, b.Args[0])
		}
		return cmp("bvule", na, b.Args[0])
	}
	if a.Op == "zero_extend" && b.Op == "zero_extend" && a.Args[0].S == b.Args[0].S {
		if op == "bvult" || op == "bvslt" {
			return cmp("bvult", a.Args[0], b.Args[0])
		}
		return cmp("bvule", a.Args[0], b.Args[0])
	}
	return mk(op, Bool, "", 0, 0, 0, a, b)
}

func ULt(a, b *Term) *Term { return cmp("bvult", a, b) }
func ULe(a, b *Term) *Term { return cmp("bvule", a, b) }
func SLt(a, b *Term) *Term { return cmp("bvslt", a, b) }
func SLe(a, b *Term) *Term { return cmp("bvsle", a, b) }

func Extract(hi, lo int, a *Term) *Term {
	w := hi - lo + 1
	if lo == 0 && w == a.S.W {
		return a
	}
	if a.IsConst() {
		return BVC(w, a.Val>>uint(lo))
	}
	switch a.Op {
	case "zero_extend":
		x := a.Args[0]
		if hi < x.S.W {
			return Extract(hi, lo, x)
		}
		if lo >= x.S.W {
			return BVC(w, 0)
		}
		if lo == 0 {
			return ZExt(w, x)
		}
	case "sign_extend":
		x := a.Args[0]
		if hi < x.S.W {
			return Extract(hi, lo, x)
		}
	case "extract":
		return Extract(hi+a.P2, lo+a.P2, a.Args[0])
	case "concat":
		lw := a.Args[1].S.W
		if hi < lw {
			return Extract(hi, lo, a.Args[1])
		}
		if lo >= lw {
			return Extract(hi-lw, lo-lw, a.Args[0])
		}
	case "bvand", "bvor", "bvxor":
		if lo == 0 {
			return bvbin(a.Op, Extract(hi, 0, a.Args[0]), Extract(hi, 0, a.Args[1]))
		}
	case "bvadd", "bvsub", "bvmul":
		if lo == 0 {
			return bvbin(a.Op, Extract(hi, 0, a.Args[0]), Extract(hi, 0, a.Args[1]))
		}
	case "ite":
		if a.Args[1].IsConst() || a.Args[2].IsConst() {
			return Ite(a.Args[0], Extract(hi, lo, a.Args[1]), Extract(hi, lo, a.Args[2]))
		}
	}
	return mk("extract", BV(w), "", 0, hi, lo, a)
}

// ZExt extends a to width w (w >= a.W).
func ZExt(w int, a *Term) *Term {
	if w == a.S.W {
		return a
	}
	if w < a.S.W {
		return Extract(w-1, 0, a)
	}
	if a.IsConst() {
		return BVC(w, a.Val)
	}
	if a.Op == "zero_extend" {
		return ZExt(w, a.Args[0])
	}
	if a.Op == "ite" && a.Args[1].IsConst() && a.Args[2].IsConst() {
		return Ite(a.Args[0], ZExt(w, a.Args[1]), ZExt(w, a.Args[2]))
	}
	return mk("zero_extend", BV(w), "", 0, w-a.S.W, 0, a)
}

func SExt(w int, a *Term) *Term {
	if w == a.S.W {
		return a
	}
	if w < a.S.W {
		return Extract(w-1, 0, a)
	}
	if a.IsConst() {
		return BVC(w, uint64(sext(a.Val, a.S.W)))
	}
	if a.Op == "zero_extend" { // sign bit is zero
		return ZExt(w, a.Args[0])
	}
	return mk("sign_extend", BV(w), "", 0, w-a.S.W, 0, a)
}

func Concat(hi, lo *Term) *Term {
	if hi.IsConst() && lo.IsConst() && hi.S.W+lo.S.W <= 64 {
		return BVC(hi.S.W+lo.S.W, hi.Val<<uint(lo.S.W)|lo.Val)
	}
	if hi.IsConst() && hi.Val == 0 {
		return ZExt(hi.S.W+lo.S.W, lo)
	}
	return mk("concat", BV(hi.S.W+lo.S.W), "", 0, 0, 0, hi, lo)
}

func Select(a, i *Term) *Term {
	if a.S.K != KArr || i.S.K != KBV || i.S.W != a.S.IdxW {
		panic(fmt.Sprintf("select sorts %v %v", a.S, i.S))
	}
	for a.Op == "store" {
		j := a.Args[1]
		if j == i {
			return a.Args[2]
		}
		if j.IsConst() && i.IsConst() {
			a = a.Args[0]
			continue
		}
		break
	}
	if a.Op == "constarr" {
		return a.Args[0]
	}
	return mk("select", BV(a.S.W), "", 0, 0, 0, a, i)
}

func Store(a, i, v *Term) *Term {
	if a.S.K != KArr || i.S.W != a.S.IdxW || v.S.W != a.S.W {
		panic("store sorts")
	}
	return mk("store", a.S, "", 0, 0, 0, a, i, v)
}

func ConstArr(s Sort, v *Term) *Term { return mk("constarr", s, "", 0, 0, 0, v) }

// Int ops (ghost arithmetic)
func IAdd(a, b *Term) *Term {
	if a.IsConst() && b.IsConst() {
		return IntC(int64(a.Val) + int64(b.Val))
	}
	return mk("+", Int, "", 0, 0, 0, a, b)
}
func ISub(a, b *Term) *Term {
	if a.IsConst() && b.IsConst() {
		return IntC(int64(a.Val) - int64(b.Val))
	}
	return mk("-", Int, "", 0, 0, 0, a, b)
}
func IMul(a, b *Term) *Term {
	if a.IsConst() && b.IsConst() {
		return IntC(int64(a.Val) * int64(b.Val))
	}
	return mk("*", Int, "", 0, 0, 0, a, b)
}
func ILe(a, b *Term) *Term {
	if a.IsConst() && b.IsConst() {
		return BoolC(int64(a.Val) <= int64(b.Val))
	}
	return mk("<=", Bool, "", 0, 0, 0, a, b)
}
func ILt(a, b *Term) *Term {
	if a.IsConst() && b.IsConst() {
		return BoolC(int64(a.Val) < int64(b.Val))
	}
	return mk("<", Bool, "", 0, 0, 0, a, b)
}
func IMod(a, b *Term) *Term { return mk("mod", Int, "", 0, 0, 0, a, b) }
func IDiv(a, b *Term) *Term { return mk("div", Int, "", 0, 0, 0, a, b) }
func BV2Nat(a *Term) *Term {
	if a.IsConst() {
		return IntC(int64(a.Val))
	}
	return mk("bv2nat", Int, "", 0, 0, 0, a)
}

// PopCount helper for constants
func OnesCount(v uint64) int { return bits.OnesCount64(v) }

// ---- printing ----

func (t *Term) Short() string {
	s := t.String()
	if len(s) > 160 {
		return s[:160] + "…"
	}
	return s
}

func constStr(t *Term) string {
	switch t.S.K {
	case KBool:
		if t.Val == 1 {
			return "true"
		}
		return "false"
	case KInt:
		v := int64(t.Val)
		if v < 0 {
			return fmt.Sprintf("(- %d)", -v)
		}
		return fmt.Sprintf("%d", v)
	default:
		if t.S.W%4 == 0 {
			return fmt.Sprintf("#x%0*x", t.S.W/4, t.Val)
		}
		return fmt.Sprintf("#b%0*b", t.S.W, t.Val)
	}
}

func QuoteName(n string) string {
	for _, c := range n {
		if !(c >= 'a' && c <= 'z' || c >= 'A' && c <= 'Z' || c >= '0' && c <= '9' || c == '_' || c == '.' || c == '!' || c == '$') {
			return "|" + strings.ReplaceAll(n, "|", "/") + "|"
		}
	}
	return n
}

func head(t *Term) string {
	switch t.Op {
	case "extract":
		return fmt.Sprintf("(_ extract %d %d)", t.P1, t.P2)
	case "zero_extend", "sign_extend":
		return fmt.Sprintf("(_ %s %d)", t.Op, t.P1)
	case "app":
		return QuoteName(t.Name)
	case "constarr":
		return fmt.Sprintf("(as const %s)", t.S)
	}
	return t.Op
}

// String prints the term as a tree (may be exponential for shared DAGs; use for small terms / debugging).
func (t *Term) String() string {
	var b strings.Builder
	budget := 4000
	var rec func(t *Term)
	rec = func(t *Term) {
		if budget <= 0 {
			b.WriteString("…")
			return
		}
		budget--
		switch t.Op {
		case "const":
			b.WriteString(constStr(t))
		case "var":
			b.WriteString(QuoteName(t.Name))
		default:
			if len(t.Args) == 0 {
				b.WriteString(head(t))
				return
			}
			b.WriteString("(")
			b.WriteString(head(t))
			for _, a := range t.Args {
				b.WriteString(" ")
				rec(a)
			}
			b.WriteString(")")
		}
	}
	rec(t)
	return b.String()
}

// UF describes an uninterpreted function declaration needed by a script.
type UF struct {
	Name string
	Args []Sort
	Ret  Sort
}

// Script renders a set of assertions as a complete SMT-LIB 2 script with shared sub-terms
// named by define-fun, so DAGs stay linear in size.
type Script struct {
	Asserts []*Term
	Logic   string
	Seed    int
	Extra   []string // raw lines inserted after declarations (e.g. spec axioms)
	GetVals []*Term
}

func CollectVars(ts []*Term) (vars []*Term, ufs map[string]UF) {
	seen := map[uint64]bool{}
	ufs = map[string]UF{}
	var rec func(t *Term)
	rec = func(t *Term) {
		if seen[t.id] {
			return
		}
		seen[t.id] = true
		if t.Op == "var" {
			vars = append(vars, t)
		}
		if t.Op == "app" {
			if _, ok := ufs[t.Name]; !ok {
				u := UF{Name: t.Name, Ret: t.S}
				for _, a := range t.Args {
					u.Args = append(u.Args, a.S)
				}
				ufs[t.Name] = u
			}
		}
		for _, a := range t.Args {
			rec(a)
		}
	}
	for _, t := range ts {
		rec(t)
	}
	sort.Slice(vars, func(i, j int) bool { return vars[i].Name < vars[j].Name })
	return
}

func (s *Script) Render(produceModels bool) string {
	var b strings.Builder
	if produceModels {
		b.WriteString("(set-option :produce-models true)\n")
	}
	logic := s.Logic
	if logic == "" {
		logic = "ALL"
	}
	fmt.Fprintf(&b, "(set-logic %s)\n", logic)
	all := append([]*Term(nil), s.Asserts...)
	all = append(all, s.GetVals...)
	vars, ufs := CollectVars(all)
	for _, v := range vars {
		fmt.Fprintf(&b, "(declare-fun %s () %s)\n", QuoteName(v.Name), v.S)
	}
	var ufn []string
	for n := range ufs {
		ufn = append(ufn, n)
	}
	sort.Strings(ufn)
	for _, n := range ufn {
		u := ufs[n]
		var as []string
		for _, a := range u.Args {
			as = append(as, a.String())
		}
		fmt.Fprintf(&b, "(declare-fun %s (%s) %s)\n", QuoteName(n), strings.Join(as, " "), u.Ret)
	}
	for _, l := range s.Extra {
		b.WriteString(l)
		b.WriteString("\n")
	}
	// count references
	refs := map[uint64]int{}
	var cnt func(t *Term)
	cnt = func(t *Term) {
		refs[t.id]++
		if refs[t.id] > 1 {
			return
		}
		for _, a := range t.Args {
			cnt(a)
		}
	}
	for _, t := range all {
		cnt(t)
	}
	names := map[uint64]string{}
	n := 0
	var pr func(t *Term) string
	var emit func(t *Term) string
	emit = func(t *Term) string {
		switch t.Op {
		case "const":
			return constStr(t)
		case "var":
			return QuoteName(t.Name)
		}
		if len(t.Args) == 0 {
			return head(t)
		}
		var sb strings.Builder
		sb.WriteString("(")
		sb.WriteString(head(t))
		for _, a := range t.Args {
			sb.WriteString(" ")
			sb.WriteString(pr(a))
		}
		sb.WriteString(")")
		return sb.String()
	}
	pr = func(t *Term) string {
		if nm, ok := names[t.id]; ok {
			return nm
		}
		body := emit(t)
		if refs[t.id] > 1 && t.Op != "const" && t.Op != "var" && len(body) > 12 {
			n++
			nm := fmt.Sprintf("tm$%d", n)
			fmt.Fprintf(&b, "(define-fun %s () %s %s)\n", nm, t.S, body)
			names[t.id] = nm
			return nm
		}
		return body
	}
	for _, a := range s.Asserts {
		x := pr(a)
		fmt.Fprintf(&b, "(assert %s)\n", x)
	}
	b.WriteString("(check-sat)\n")
	if produceModels {
		if len(s.GetVals) > 0 {
			var vs []string
			for _, g := range s.GetVals {
				vs = append(vs, pr(g))
			}
			_ = vs
		}
		b.WriteString("(get-model)\n")
	}
	return b.String()
}
