package props

import (
	"verif/engine/internal/core"
	"verif/engine/internal/sym"
)

func init() {
	Registry["C02"] = c02
	Registry["C03"] = c03
	Registry["C10"] = c10
}

func lemmaOutcomes(w *core.World, rep *core.Report, ctxs []*codecCtx) {
	seen := map[string]bool{}
	var obls []*sym.Oblig
	for _, c := range ctxs {
		if seen[c.name] {
			continue
		}
		seen[c.name] = true
		rep.Outcomes = append(rep.Outcomes, c.tableSideConditions()...)
		obls = append(obls, c.roundTripLemmas(w)...)
	}
	opt := Tiered(rep.Tier)
	opt.Seed = rep.Seed
	rep.Outcomes = append(rep.Outcomes, core.Discharge(obls, opt)...)
}

func c02(w *core.World, rep *core.Report) {
	std(rep)
	rep.Explain = "Round trip as a lemma over the two codec contracts: (1) the real encoders append exactly ENC_T(a) and the real decoders equal the table-driven decoder DEC_T (the C04 obligations, re-run here on the current tree); (2) for every one of the 357 element slots, DEC_T's step applied to the encoding of a well-formed element at an arbitrary position dispatches to that slot's row, raises no error, returns the element field for field and consumes exactly its octets; (3) table side conditions (identifiers pairwise distinct per message, full-octet identifiers 0x10..0x7f, half-octet identifiers 8..15, bounds fit the representation). DEC_T(ENC_T(m)) = m for well-formed m follows by induction over the elements in table order."
	jobs, ctxs := CodecJobs(w, rep, "encode", "decode")
	if rep.Broken != "" {
		return
	}
	lemmaOutcomes(w, rep, ctxs)
	RunJobs(w, rep, jobs)
	rep.Floor = 3000
	rep.AddUnique(&rep.Assumptions,
		"the induction over table rows (offsets add up; a present element's identifier dispatches to its own row because identifiers are pairwise distinct) is a paper step over the machine-checked per-row lemmas",
		"well-formed means: stored identifier equals the table's, Len within the table's bounds and equal to the content length, octets of array-backed elements beyond Len are zero; header view = body header is part of C05",
		"oracle: /verif/spec/messages.json (see C04)")
}

func c03(w *core.World, rep *core.Report) {
	std(rep)
	rep.Explain = "Stability of re-encoding: the decoder obligations (C04, re-run here) include that every stored element has the received identifier, a length inside the table's bounds and content storage of exactly that length (the element is well-formed), so a decoded message satisfies the premise of the round-trip lemma (C02, re-run here); encode is a function of the message (C04 encoder obligations), hence decode(encode(m)) = m and the third encoding equals the second. For canonical input in = ENC_T(m') the lemma gives DEC_T(in) = m' and ENC_T(DEC_T(in)) = in."
	jobs, ctxs := CodecJobs(w, rep, "encode", "decode")
	if rep.Broken != "" {
		return
	}
	lemmaOutcomes(w, rep, ctxs)
	RunJobs(w, rep, jobs)
	rep.Floor = 3000
	rep.AddUnique(&rep.Assumptions,
		"the decoded message starts from a freshly allocated message struct (all optional elements absent), which is what the dispatchers do (C05); decoding into a reused struct keeps stale optional elements",
		"'canonical' is by definition the image of ENC_T on well-formed messages; the equational steps from the per-function obligations to the fixed-point statement are a paper argument",
		"oracle: /verif/spec/messages.json (see C04)")
}

func c10(w *core.World, rep *core.Report) {
	std(rep)
	rep.Explain = "Purity as frame and freshness obligations on the real codecs: the decoders never modify the input octets or the slice header (frame.input on every exit path), every stored element and every Buffer lives in storage allocated during the call (freshness is part of each step/mandatory obligation: an element aliasing the input or pre-existing storage fails), a step modifies no storage that existed before it; the encoders modify nothing but the buffer (message and everything reachable unchanged) and only append (old(buffer) is a prefix of the result for every pre-existing content). Determinism: results are given as functions (ENC_T, DEC_T) of the arguments only."
	jobs, _ := CodecJobs(w, rep, "encode", "decode")
	if rep.Broken != "" {
		return
	}
	ex := rep.Explain
	jobs = append(jobs, dispatchJobs(w, rep)...)
	rep.Explain = ex + " The six dispatch functions are covered with the same obligations as in C05 (frame: only the family pointer is written on decode, nothing on encode; the returned octets are fresh)."
	RunJobs(w, rep, jobs)
	rep.Floor = 3000
	rep.AddUnique(&rep.Assumptions,
		"bytes.Buffer writes are modelled as reallocation: in-place reuse of spare capacity of a caller-supplied backing array is not distinguished from allocation",
		"at the dispatchers the codecs are used through their derived contracts")
}
