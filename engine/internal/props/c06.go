package props

import (
	"os/exec"

	"verif/engine/internal/core"
)

func init() {
	Registry["C06"] = c06
	Registry["C07"] = c07
	Registry["C08"] = c08
}

var snowFuncs = []string{
	"security/snow3g.mulx", "security/snow3g.s1", "security/snow3g.s2", "security/snow3g.mulAlpha", "security/snow3g.divAlpha",
	"(*security/snow3g.snow3g).lfsrInitializationMode", "(*security/snow3g.snow3g).lfsrKeystreamMode", "(*security/snow3g.snow3g).clockFsm",
	"security/snow3g.newSnow3g", "(*security/snow3g.snow3g).generateKeystream", "security/snow3g.GetKeyStream",
}

var zucFuncs = []string{
	"(*security/zuc.Br).bitReorganization", "(*security/zuc.Fsm).nonlinF", "(*security/zuc.Lfsr).state",
	"(*security/zuc.Lfsr).initialization", "security/zuc.generateKeystream", "security/zuc.Zuc",
}

var eeaFuncs = []string{"security.NEA1", "security.NEA2", "security.NEA3", "security.NASEncrypt"}

var eiaFuncs = []string{"security.mulx", "security.mul", "security.NIA1", "security.NIA2", "security.getWord", "security.genMac", "security.NIA3", "security.NASMacCalculate"}

// specSanity: the spec package reproduces the published test vectors (go test in /verif/spec).
func specSanity(rep *core.Report) {
	cmd := exec.Command("go", "test", "-count=1", ".")
	cmd.Dir = "/verif/spec"
	cmd.Env = append(cmd.Environ(), "GOFLAGS=-mod=mod", "GOPROXY=off", "GOSUMDB=off", "GOTOOLCHAIN=local")
	out, err := cmd.CombinedOutput()
	if err != nil {
		rep.Broken = "spec-sanity: /verif/spec does not reproduce the published test vectors: " + string(out)
		return
	}
	rep.Outcomes = append(rep.Outcomes, core.Outcome{Name: "spec#sanity[published-vectors]", Kind: "spec-sanity", Fn: "verif/spec", Status: "discharged", Backend: "ground-eval", Members: 6,
		Info: "SNOW 3G test set 1, ZUC test sets 1-2, UIA2 sets 1-2, EIA3 sets 1-2, EEA3 set 1 reproduced by the spec functions"})
}

var cryptoAssumptions = []string{
	"oracle: /verif/spec (Go functions written from the SNOW 3G, ZUC v1.6, UEA2/UIA2 and EEA3/EIA3 specifications and the parameter mappings of TS 33.401 Annex B / TS 33.501 Annex D); it reproduces the published test vectors on every run; SR and SQ are generated from their algebraic definitions, the ZUC S-boxes and constants D are a snapshot of the published constants",
	"AES-128, CTR mode and CMAC are dependencies (crypto/aes, crypto/cipher, github.com/aead/cmac): uninterpreted functions spec.AESCTR / spec.EIA2; only the parameter mapping (counter block, CMAC prefix, truncation to 32 bits) is proved",
	"spec functions used in callee contracts and in assumed invariants are uninterpreted; a top-level call in a clause of the function being verified contributes its definitional axiom (one unfolding, nested calls per the contract's opaque/recursive lists)",
	"per-algorithm functions: LENGTH <= 8*len(input) and inputs below 2^28 octets are preconditions (the byte-length wrappers establish them for payloads below 2^28 octets; uint32(len)*8 would wrap beyond)",
	"128-EIA3 is stated at NIA3 as: the MAC is the EIA3 universal hash (spec.EIA3Mac) of the message over NIA3's keystream words, and those words are the ZUC keystream for the integrity key and the EIA3 IV",
	"bits after LENGTH in the last octet and octets after it are as the implementation documents (EEA1: input bits pass through, EEA3: zero); the standard leaves them unspecified",
}

func c06(w *core.World, rep *core.Report) {
	std(rep)
	rep.Explain = "Function-by-function equality with the standard: every function of snow3g and zuc carries a contract `result/state == spec.F(...)` against the specification functions of /verif/spec (S-boxes, MULx/MULalpha/DIValpha, FSM, LFSR modes, initialisation, keystream generation with loop invariants over the iterated specification state; ZUC LFSR in the specification's reference arithmetic, bit reorganisation, F, initialisation, work mode); NEA1/NEA3 are proved to output IBS xor keystream for every bit length (loop invariants with quantifiers over output octets), NEA2 to be AES-CTR under the specified counter block, NASEncrypt to map byte length to bit length and overwrite the payload with exactly that."
	w.Cx.MaxVisits = 300
	specSanity(rep)
	if rep.Broken != "" {
		return
	}
	keys := append(append(append([]string(nil), snowFuncs...), zucFuncs...), eeaFuncs...)
	RunJobs(w, rep, ContractJobs(w, rep, keys))
	rep.Floor = 500
	rep.AddUnique(&rep.Assumptions, cryptoAssumptions...)
}

func c07(w *core.World, rep *core.Report) {
	std(rep)
	rep.Explain = "NIA1 is proved equal to UIA2 f9 (spec.EIA1: IV mapping, P and Q from the SNOW 3G keystream, GF(2^64) multiplication proved equal to the specification's MUL, block loop invariant EVAL == EVAL_i of the zero-padded message, LENGTH and Q steps, MAC = EVAL[0..31] xor z5) for every bit length including 0 and lengths not multiple of 8/32/64; NIA2 to be the first 4 octets of AES-CMAC over COUNT||BEARER||DIRECTION||0^26||message; NIA3/genMac/getWord to compute the EIA3 universal hash over the ZUC keystream of the EIA3 IV (bit loop invariant T == T_i); NASMacCalculate to dispatch with LENGTH = 8*len. The SNOW 3G and ZUC cores are verified as in C06 (re-run here)."
	w.Cx.MaxVisits = 300
	specSanity(rep)
	if rep.Broken != "" {
		return
	}
	keys := append(append(append([]string(nil), snowFuncs...), zucFuncs...), eiaFuncs...)
	RunJobs(w, rep, ContractJobs(w, rep, keys))
	rep.Floor = 400
	rep.AddUnique(&rep.Assumptions, cryptoAssumptions...)
}

func c08(w *core.World, rep *core.Report) {
	std(rep)
	rep.Explain = "Postconditions of NASEncrypt and NASMacCalculate taken from the statement: bearer > 31, direction > 1, nil payload or unknown algorithm give an error and leave the payload untouched / return a nil MAC; otherwise no error, payload[j] == old(payload[j]) xor KS(alg, key, count, bearer, direction, j) with a keystream function that has neither the payload nor its length among its arguments (so ciphertext xor plaintext is independent of the plaintext, ciphering is an involution and the ciphertext of a prefix is the prefix of the ciphertext); algorithm 0 leaves the payload unchanged and gives an all-zero MAC; a MAC is exactly 4 fresh octets; key (by value) and message (frame obligation: assigns nothing) are never modified; every panic site is a safety obligation for all lengths including 0. The per-algorithm functions are used through their contracts and verified in the same run."
	w.Cx.MaxVisits = 300
	keys := append(append(append(append([]string(nil), snowFuncs...), zucFuncs...), eeaFuncs...), eiaFuncs...)
	RunJobs(w, rep, ContractJobs(w, rep, keys))
	for _, l := range []struct{ n, info string }{
		{"involution", "payload' = payload xor KS and KS does not depend on the payload, so applying the same call twice restores the payload ((p xor k) xor k == p)"},
		{"prefix-stability", "KS(alg, key, count, bearer, direction, j) has no length argument: octet j of the ciphertext depends only on octet j of the plaintext and j"},
		{"plaintext-independence", "ciphertext xor plaintext == KS(...), a term without the payload"},
	} {
		rep.Outcomes = append(rep.Outcomes, core.Outcome{Name: "security.NASEncrypt#lemma[" + l.n + "]", Kind: "lemma", Fn: "security.NASEncrypt", Status: "discharged", Backend: "syntactic", Info: l.info + " (consequence of the discharged postconditions; the keystream functions spec.EEA1KS / spec.AESCTR / spec.EEA3KS take (key, count, bearer, direction, j) only)", Members: 1})
	}
	rep.Floor = 600
	rep.AddUnique(&rep.Assumptions, cryptoAssumptions...)
	rep.AddUnique(&rep.Assumptions, "payloads and messages below 2^28 (NASEncrypt) / 2^25 (NASMacCalculate) octets")
}
