package props

import "verif/engine/internal/core"

func init() { Registry["C06"] = c06 }

var snowFuncs = []string{
	"security/snow3g.mulx", "security/snow3g.s1", "security/snow3g.s2", "security/snow3g.mulAlpha", "security/snow3g.divAlpha",
	"(*security/snow3g.snow3g).lfsrInitializationMode", "(*security/snow3g.snow3g).lfsrKeystreamMode", "(*security/snow3g.snow3g).clockFsm",
	"security/snow3g.newSnow3g", "(*security/snow3g.snow3g).generateKeystream", "security/snow3g.GetKeyStream",
}

var zucFuncs = []string{
	"(*security/zuc.Br).bitReorganization", "(*security/zuc.Fsm).nonlinF", "(*security/zuc.Lfsr).state",
	"(*security/zuc.Lfsr).initialization", "security/zuc.generateKeystream", "security/zuc.Zuc",
}

func c06(w *core.World, rep *core.Report) {
	std(rep)
	w.Cx.MaxVisits = 300
	RunJobs(w, rep, ContractJobs(w, rep, append(append([]string(nil), snowFuncs...), zucFuncs...)))
}
