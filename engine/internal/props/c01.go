package props

import (
	"sort"
	"strings"

	"verif/engine/internal/core"
)

func init() { Registry["C01"] = c01 }

func decodeKeys(w *core.World) []string {
	var keys []string
	for k, fc := range w.Contracts.ByKey {
		if fc.Codec != "" && fc.CodecDir == "decode" && strings.HasPrefix(k, "(*nasMessage.") {
			keys = append(keys, k)
		}
	}
	sort.Strings(keys)
	return keys
}

func c01(w *core.World, rep *core.Report) {
	std(rep)
	rep.Explain = "Every panic site of the 45 generated decoders and the three decode entry points is a safety obligation under `requires byteArray != nil` only (no assumption on the bytes); the optional-element loop carries the variant buffer.Len() (terminates, consumes at least one octet per iteration). Entry points use the decoders through their contracts."
	keys := decodeKeys(w)
	keys = append(keys, "(*nas.Message).PlainNasDecode", "(*nas.Message).GmmMessageDecode", "(*nas.Message).GsmMessageDecode", "nas.GetEPD")
	RunJobs(w, rep, SafetyJobs(w, rep, keys))
	rep.Floor = 2000
}
