// Package props: one driver per property.
package props

import (
	"fmt"
	"os"
	"sort"
	"strconv"
	"sync"
	"time"

	"golang.org/x/tools/go/ssa"

	"verif/engine/internal/core"
	"verif/engine/internal/sym"
)

type Driver func(w *core.World, rep *core.Report)

var Registry = map[string]Driver{}

func Tiered(tier string) core.DischargeOpts {
	if tier == "thorough" {
		return core.DischargeOpts{Timeout: 60 * time.Second, TwoUnsat: true}
	}
	return core.DischargeOpts{Timeout: QuickTimeout}
}

// QuickTimeout is the per-stage solver timeout of the quick tier; a driver whose obligations are few but large may
// raise it (one property per process).
var QuickTimeout = 20 * time.Second

// job: one function to verify against a spec.
type Job struct {
	Fn   *ssa.Function
	Spec *sym.FnSpec
	// Bounded: the job verifies an instance with a fixed number of list elements (a bounded stand-in for the
	// function-level statement); its obligations are counted separately in the evidence.
	Bounded bool
}

// MarkBounded flags jobs as bounded instances.
func MarkBounded(jobs []Job) []Job {
	for i := range jobs {
		jobs[i].Bounded = true
	}
	return jobs
}

// RunJobs verifies all jobs in parallel and discharges their obligations.
func RunJobs(w *core.World, rep *core.Report, jobs []Job) {
	type res struct {
		fx *sym.FnExec
	}
	out := make([]*sym.FnExec, len(jobs))
	var wg sync.WaitGroup
	sem := make(chan struct{}, 16)
	for i, j := range jobs {
		wg.Add(1)
		sem <- struct{}{}
		go func(i int, j Job) {
			defer wg.Done()
			defer func() { <-sem }()
			out[i] = w.Cx.VerifyFunc(j.Fn, j.Spec)
		}(i, j)
	}
	wg.Wait()
	var obls []*sym.Oblig
	trusted := map[string]bool{}
	inlined := map[string]bool{}
	for i, fx := range out {
		name := sym.FuncName(jobs[i].Fn)
		rep.Functions = append(rep.Functions, name)
		if os.Getenv("VERIF_SLOW") != "" {
			fmt.Fprintf(os.Stderr, "JOB %s{%s} forks=%d merges=%d returns=%d aborted=%q\n", name, fx.Tag, fx.Paths, fx.Merges, fx.Returns, fx.Aborted)
		}
		if fx.Aborted != "" {
			rep.Aborted[name] = fx.Aborted
			continue
		}
		if fx.Returns == 0 {
			// no return path reached: vacuous
			rep.Aborted[name] = "no return path reached (vacuous verification)"
		}
		obls = append(obls, fx.Obls...)
		for _, o := range fx.Obls {
			if jobs[i].Bounded {
				rep.BoundedObls[o.Name] = true
			} else {
				rep.GeneralObls[o.Name] = true
			}
		}
		for k := range fx.Trusted {
			trusted[k] = true
		}
		for k := range fx.Inlined {
			inlined[k] = true
		}
	}
	opt := Tiered(rep.Tier)
	opt.Seed = rep.Seed
	ocs := core.Discharge(obls, opt)
	if th := os.Getenv("VERIF_SLOW"); th != "" {
		lim, _ := strconv.ParseFloat(th, 64)
		for _, o := range ocs {
			if o.Seconds >= lim {
				fmt.Fprintf(os.Stderr, "SLOW %.1fs %s [%s] paths=%d size=%d %s\n", o.Seconds, o.Name, o.Backend, o.Members, o.Size, o.Status)
			}
		}
	}
	rep.Outcomes = append(rep.Outcomes, ocs...)
	for k := range trusted {
		rep.AddUnique(&rep.Trusted, "model of "+k)
	}
	for k := range inlined {
		rep.AddUnique(&rep.Inlined, k)
	}
	var notes []string
	for n := range w.Cx.Notes {
		notes = append(notes, n)
	}
	sort.Strings(notes)
	rep.AddUnique(&rep.Assumptions, notes...)
}

// ContractJobs builds jobs for functions with textual contracts.
func ContractJobs(w *core.World, rep *core.Report, keys []string) []Job {
	var jobs []Job
	for _, k := range keys {
		fc := w.Contracts.ByKey[k]
		if fc == nil || fc.Fn == nil {
			rep.Aborted[k] = "contract-binding: no contract found for " + k
			continue
		}
		for _, sp := range fc.Specs() {
			jobs = append(jobs, Job{Fn: fc.Fn, Spec: sp})
		}
	}
	return jobs
}

var baseAssumptions = []string{
	"go/ssa (golang.org/x/tools v0.29.0) is a faithful lowering of the Go source; the Go compiler and runtime implement the language specification",
	"SMT solvers z3 4.8.12, z3 5.1.0, cvc5 1.0 are sound",
	"machine integers are modelled as bit-vectors of their Go width (int/uint = 64 bit); nothing is treated as mathematical",
	"distinct pointer parameters point to distinct objects, distinct slice parameters do not overlap (separation assumption)",
	"slice capacities and string lengths are below 2^40 octets",
	"scheduling, garbage collection, stack growth and allocation failure are not modelled",
}

func std(rep *core.Report) {
	rep.AddUnique(&rep.Assumptions, baseAssumptions...)
}

func must(err error) {
	if err != nil {
		panic(fmt.Sprint(err))
	}
}
