package props

import (
	"fmt"
	"go/ast"
	"go/types"
	"regexp"
	"sort"
	"strconv"
	"strings"

	"golang.org/x/tools/go/ssa"

	"verif/engine/internal/core"
	. "verif/engine/internal/smt"
	"verif/engine/internal/sym"
)

func init() { Registry["C09"] = c09 }

// Layout is the annotation `<Field> Row, sBit, len = [r0, r1], s, n` on an accessor.
type Layout struct {
	Field  string
	NoRow  bool // `[]`: Iei / Len
	R0, R1 int
	S      int
	N      int // -1 = INF
}

var reLayout = regexp.MustCompile(`(\w+)\s+Row,\s*sBit,\s*len\s*=\s*\[\s*(\d*)\s*,?\s*(\d*)\s*\]\s*,\s*(\d+)\s*,\s*(\w+)`)

func parseLayout(doc string) (Layout, bool) {
	var last Layout
	found := false
	for _, line := range strings.Split(doc, "\n") {
		m := reLayout.FindStringSubmatch(line)
		if m == nil {
			continue
		}
		l := Layout{Field: m[1]}
		if m[2] == "" {
			l.NoRow = true
		} else {
			l.R0, _ = strconv.Atoi(m[2])
			l.R1, _ = strconv.Atoi(m[3])
		}
		l.S, _ = strconv.Atoi(m[4])
		if m[5] == "INF" {
			l.N = -1
		} else {
			l.N, _ = strconv.Atoi(m[5])
		}
		last = l
		found = true
	}
	return last, found
}

type accessor struct {
	fn     *ssa.Function
	typ    string
	isSet  bool
	layout Layout
}

// storage describes how the element keeps its octets.
type storage struct {
	kind   string // "octet" (uint8), "array", "buffer"
	field  int
	n      int // array length
	ieiIdx int
	lenIdx int
	lenW   int
}

func storageOf(st *types.Struct) storage {
	s := storage{field: -1, ieiIdx: -1, lenIdx: -1}
	for i := 0; i < st.NumFields(); i++ {
		f := st.Field(i)
		switch f.Name() {
		case "Iei":
			s.ieiIdx = i
		case "Len":
			s.lenIdx = i
			s.lenW, _ = sym.IsByteLike(f.Type())
		case "Octet":
			s.field = i
			if a, ok := f.Type().Underlying().(*types.Array); ok {
				s.kind, s.n = "array", int(a.Len())
			} else {
				s.kind = "octet"
			}
		case "Buffer":
			s.field = i
			s.kind = "buffer"
		}
	}
	return s
}

func c09(w *core.World, rep *core.Report) {
	std(rep)
	rep.Explain = "Every Get*/Set* accessor of nasType carrying a layout annotation `Row, sBit, len = [r0, r1], s, n` is verified against the strongest contract derived from that annotation: the getter returns exactly bits s..s-n+1 of octets r0..r1 (big-endian bit string) and modifies nothing; the setter writes the value truncated to n bits into exactly those bits and leaves every other bit of the element, Iei, Len, the slice header and all other octets unchanged. Prior contents and values are fully symbolic. GetBitMask is verified against its own contract and used through it."
	pkg, files := w.PkgSyntax("nasType")
	if pkg == nil {
		rep.Broken = "package nasType not found"
		return
	}
	var accs []accessor
	typeDocs := map[string]map[string]Layout{}
	for _, f := range files {
		fname := pkg.Fset.Position(f.Pos()).Filename
		if !strings.Contains(fname, "NAS_") {
			continue
		}
		for _, d := range f.Decls {
			switch x := d.(type) {
			case *ast.GenDecl:
				if x.Doc == nil {
					continue
				}
				for _, sp := range x.Specs {
					if ts, ok := sp.(*ast.TypeSpec); ok {
						m := map[string]Layout{}
						for _, line := range strings.Split(x.Doc.Text(), "\n") {
							if l, ok := parseLayout(line); ok {
								m[l.Field] = l
							}
						}
						typeDocs[ts.Name.Name] = m
					}
				}
			case *ast.FuncDecl:
				if x.Recv == nil || x.Doc == nil || len(x.Recv.List) != 1 {
					continue
				}
				star, ok := x.Recv.List[0].Type.(*ast.StarExpr)
				if !ok {
					continue
				}
				tn := star.X.(*ast.Ident).Name
				name := x.Name.Name
				if !strings.HasPrefix(name, "Get") && !strings.HasPrefix(name, "Set") {
					continue
				}
				l, ok := parseLayout(x.Doc.Text())
				if !ok {
					continue
				}
				fn := w.Funcs[fmt.Sprintf("(*nasType.%s).%s", tn, name)]
				if fn == nil {
					continue
				}
				accs = append(accs, accessor{fn: fn, typ: tn, isSet: strings.HasPrefix(name, "Set"), layout: l})
			}
		}
	}
	sort.Slice(accs, func(i, j int) bool { return sym.FuncName(accs[i].fn) < sym.FuncName(accs[j].fn) })
	var jobs []Job
	skipped := map[string]string{}
	pairs := map[string][2]*Layout{}
	for i := range accs {
		a := accs[i]
		key := a.typ + "." + a.fn.Name()[3:]
		p := pairs[key]
		if a.isSet {
			p[1] = &accs[i].layout
		} else {
			p[0] = &accs[i].layout
		}
		pairs[key] = p
		spec, why := accessorSpec(w, a)
		if spec == nil {
			skipped[sym.FuncName(a.fn)] = why
			continue
		}
		jobs = append(jobs, Job{Fn: a.fn, Spec: spec})
	}
	jobs = append(jobs, ContractJobs(w, rep, []string{"nasType.GetBitMask"})...)
	RunJobs(w, rep, jobs)
	// annotation consistency: getter and setter of a pair, and the type-level duplicate, must agree
	var keys []string
	for k := range pairs {
		keys = append(keys, k)
	}
	sort.Strings(keys)
	npairs := 0
	for _, k := range keys {
		p := pairs[k]
		ok := true
		info := ""
		if p[0] != nil && p[1] != nil {
			npairs++
			if *p[0] != *p[1] {
				ok = false
				info = fmt.Sprintf("getter annotation %+v differs from setter annotation %+v", *p[0], *p[1])
			}
		}
		tn := k[:strings.Index(k, ".")]
		var l *Layout
		if p[0] != nil {
			l = p[0]
		} else {
			l = p[1]
		}
		if td, has := typeDocs[tn][l.Field]; has && td != *l && ok {
			ok = false
			info = fmt.Sprintf("accessor annotation %+v differs from the type-level annotation %+v", *l, td)
		}
		st := "discharged"
		if !ok {
			st = "failed"
		}
		rep.Outcomes = append(rep.Outcomes, core.Outcome{Name: "nasType." + k + "#annotation", Kind: "lemma", Fn: "nasType." + k, Status: st, Backend: "syntactic", Info: info, Members: 1})
	}
	var sk []string
	for k, v := range skipped {
		sk = append(sk, k+": "+v)
	}
	sort.Strings(sk)
	rep.Extra["accessor_pairs"] = npairs
	rep.Extra["accessors_without_derived_contract"] = sk
	rep.Floor = 3000
	rep.AddUnique(&rep.Assumptions,
		"the oracle is the layout annotation on each accessor (cross-checked against the duplicate on the type); that the annotations equal the TS 24.501 figures is not checked",
		"slice-backed elements: accessors are verified under `len(Buffer) > r1` (an accessor of a too-short Buffer panics; that is outside this property and inside C14 for the helpers listed there)",
		"SetLen on slice-backed elements is specified as coded: it sets Len and replaces Buffer by Len fresh zero octets")
}

func accessorSpec(w *core.World, a accessor) (*sym.FnSpec, string) {
	fn := a.fn
	recvT := fn.Params[0].Type().(*types.Pointer).Elem()
	stT, ok := recvT.Underlying().(*types.Struct)
	if !ok {
		return nil, "receiver is not a struct"
	}
	sto := storageOf(stT)
	l := a.layout
	name := sym.FuncName(fn)
	if l.Field == "DNN" && a.typ == "DNN" {
		return nil, "DNN accessors convert to/from RFC 1035 labels (covered by C14, not a bit-field)"
	}
	if !l.NoRow && sto.field < 0 {
		return nil, "no Octet/Buffer storage"
	}
	// field geometry
	m := l.R1 - l.R0 + 1
	if !l.NoRow && l.N >= 0 {
		if m < 1 || l.S < 1 || l.S > 8 || l.N < 1 || (8-l.S)+l.N > 8*m {
			return nil, fmt.Sprintf("annotation geometry not understood: %+v", l)
		}
		if 8*m > 64 && !(l.S == 8 && l.N == 8*m) {
			return nil, "wide unaligned field"
		}
	}
	octet := func(fx *sym.FnExec, st *sym.State, recv sym.StructV, k int) *Term {
		switch sto.kind {
		case "octet":
			return recv.F[sto.field].(sym.Scalar).T
		case "array":
			return recv.F[sto.field].(sym.ArrV).C.Elem(sym.BV64(uint64(k)))
		default:
			sl := recv.F[sto.field].(sym.SliceV)
			arr := st.Heap[sl.Obj].(sym.ArrV)
			return arr.C.Elem(Add(sl.Off, sym.BV64(uint64(k))))
		}
	}
	setOctet := func(fx *sym.FnExec, heap map[*sym.Object]sym.Value, recv sym.StructV, k int, v *Term) sym.StructV {
		nf := append([]sym.Value(nil), recv.F...)
		switch sto.kind {
		case "octet":
			nf[sto.field] = sym.Scalar{T: v}
		case "array":
			arr := recv.F[sto.field].(sym.ArrV)
			nf[sto.field] = sym.ArrV{EW: 8, Len: arr.Len, C: sym.StoreC(arr.C, sym.BV64(uint64(k)), v)}
		default:
			sl := recv.F[sto.field].(sym.SliceV)
			arr := heap[sl.Obj].(sym.ArrV)
			heap[sl.Obj] = sym.ArrV{EW: 8, Len: arr.Len, C: sym.StoreC(arr.C, Add(sl.Off, sym.BV64(uint64(k))), v)}
		}
		return sym.StructV{F: nf}
	}
	requires := func(fx *sym.FnExec, st *sym.State, args []sym.Value) {
		p := args[0].(sym.PtrV)
		st.Assume(Not(p.Nil))
		if sto.kind == "buffer" && !l.NoRow {
			recv := st.Heap[p.Obj].(sym.StructV)
			sl := recv.F[sto.field].(sym.SliceV)
			need := l.R1 + 1
			if l.N < 0 {
				need = l.R0
			}
			st.Assume(ULe(sym.BV64(uint64(need)), sl.Len))
			if need > 0 {
				st.Assume(Not(sl.Nil))
			}
		}
	}
	post := func(fx *sym.FnExec, entry, exit *sym.State, args []sym.Value, ret sym.Value, ri int) {
		p := args[0].(sym.PtrV)
		recv0 := entry.Heap[p.Obj].(sym.StructV)
		exp := map[*sym.Object]sym.Value{}
		for o, v := range entry.Heap {
			exp[o] = v
		}
		expect := &sym.Expect{Heap: exp}
		var resGoal *Term = True
		bad := func(msg string) {
			panic(sym.Unsupported{Msg: name + ": " + msg})
		}
		if !a.isSet {
			// ---------- getter ----------
			switch {
			case l.NoRow:
				idx := sto.ieiIdx
				if l.Field == "Len" {
					idx = sto.lenIdx
				}
				if idx < 0 {
					bad("no Iei/Len field")
				}
				want := recv0.F[idx]
				expect.HasResult, expect.Result = true, want
				resGoal = fx.EqV(want, ret)
			case l.N < 0:
				// copy of the tail O[r0:]
				sl := recv0.F[sto.field].(sym.SliceV)
				rs, ok := ret.(sym.SliceV)
				if !ok {
					bad("INF getter does not return a slice")
				}
				arr := entry.Heap[sl.Obj].(sym.ArrV)
				n := Sub(sl.Len, sym.BV64(uint64(l.R0)))
				var fresh *Term = True
				if rs.Obj != nil {
					if _, existed := entry.Heap[rs.Obj]; existed {
						fresh = False
					}
				}
				var content *Term = True
				if rs.Obj != nil {
					ra := exit.Heap[rs.Obj].(sym.ArrV)
					content = fx.EqContent(ra.C, rs.Off, arr.C, Add(sl.Off, sym.BV64(uint64(l.R0))), n)
				}
				resGoal = And(Eq(rs.Len, n), fresh, content)
			default:
				rt := fn.Signature.Results().At(0).Type()
				if at, ok := rt.Underlying().(*types.Array); ok {
					if l.S != 8 || l.N != 8*m || int(at.Len()) != m {
						bad("array-valued getter with unaligned annotation")
					}
					e := make([]*Term, m)
					for i := 0; i < m; i++ {
						e[i] = octet(fx, entry, recv0, l.R0+i)
					}
					want := sym.ArrV{EW: 8, Len: sym.BV64(uint64(m)), C: sym.CVec{E: e, W: 8}}
					expect.HasResult, expect.Result = true, want
					resGoal = fx.EqV(want, ret)
				} else {
					rw, ok := sym.IsByteLike(rt)
					if !ok {
						bad("getter result type")
					}
					be := octet(fx, entry, recv0, l.R0)
					for i := 1; i < m; i++ {
						be = Concat(be, octet(fx, entry, recv0, l.R0+i))
					}
					sh := 8*m - (8 - l.S) - l.N
					val := Extract(sh+l.N-1, sh, be)
					var want *Term
					if l.N > rw {
						bad("field wider than result type")
					}
					want = ZExt(rw, val)
					expect.HasResult, expect.Result = true, sym.Scalar{T: want}
					resGoal = Eq(want, ret.(sym.Scalar).T)
				}
			}
			fx.ObligeAux(exit, name+"#post.value", "post", resGoal, "", fmt.Sprintf("getter returns exactly the bits of %+v", l), expect)
		} else {
			// ---------- setter ----------
			v := args[1]
			vt := fn.Params[1].Type()
			recvE := recv0
			switch {
			case l.NoRow:
				idx := sto.ieiIdx
				if l.Field == "Len" {
					idx = sto.lenIdx
				}
				if idx < 0 {
					bad("no Iei/Len field")
				}
				nf := append([]sym.Value(nil), recv0.F...)
				nf[idx] = v
				recvE = sym.StructV{F: nf}
				if l.Field == "Len" && sto.kind == "buffer" {
					// as coded: Buffer becomes Len fresh zero octets; checked separately below
					recvE.F[sto.field] = nil
				}
			case l.N < 0:
				vs, ok := v.(sym.SliceV)
				if !ok {
					bad("INF setter without slice parameter")
				}
				sl := recv0.F[sto.field].(sym.SliceV)
				arr := exp[sl.Obj].(sym.ArrV)
				room := Sub(sl.Len, sym.BV64(uint64(l.R0)))
				n := Ite(ULt(vs.Len, room), vs.Len, room)
				if vs.Obj != nil {
					va := entry.Heap[vs.Obj].(sym.ArrV)
					exp[sl.Obj] = sym.ArrV{EW: 8, Len: arr.Len, C: sym.CopyC(arr.C, Add(sl.Off, sym.BV64(uint64(l.R0))), va.C, vs.Off, n)}
				}
			default:
				if at, ok := vt.Underlying().(*types.Array); ok {
					if l.S != 8 || l.N != 8*m || int(at.Len()) != m {
						bad("array-valued setter with unaligned annotation")
					}
					va := v.(sym.ArrV)
					for i := 0; i < m; i++ {
						recvE = setOctet(fx, exp, recvE, l.R0+i, va.C.Elem(sym.BV64(uint64(i))))
					}
				} else {
					vw, ok := sym.IsByteLike(vt)
					if !ok {
						bad("setter parameter type")
					}
					vtm := v.(sym.Scalar).T
					be := octet(fx, entry, recv0, l.R0)
					for i := 1; i < m; i++ {
						be = Concat(be, octet(fx, entry, recv0, l.R0+i))
					}
					W := 8 * m
					sh := W - (8 - l.S) - l.N
					var fv *Term
					if vw >= l.N {
						fv = ZExt(W, Extract(l.N-1, 0, vtm))
						if W < l.N {
							bad("geometry")
						}
					} else {
						fv = ZExt(W, vtm)
					}
					var mask uint64 = (uint64(1)<<uint(l.N) - 1) << uint(sh)
					if l.N == 64 {
						mask = ^uint64(0)
					}
					nbe := BOr(BAnd(be, BVC(W, ^mask)), Shl(fv, BVC(W, uint64(sh))))
					for i := 0; i < m; i++ {
						recvE = setOctet(fx, exp, recvE, l.R0+i, Extract(W-1-8*i, W-8-8*i, nbe))
					}
				}
			}
			exp[p.Obj] = recvE
			// compare the whole exit state of every entry object with the expected state
			var goals []*Term
			var names []string
			for o, want := range exp {
				got, ok := exit.Heap[o]
				if !ok {
					continue
				}
				if o == p.Obj && l.NoRow && l.Field == "Len" && sto.kind == "buffer" {
					ws, gs := want.(sym.StructV), got.(sym.StructV)
					for i := range ws.F {
						if i == sto.field {
							sl := gs.F[i].(sym.SliceV)
							lenT := v.(sym.Scalar).T
							g := And(Eq(sl.Len, ZExt(64, lenT)), Not(sl.Nil))
							if sl.Obj != nil {
								if _, existed := entry.Heap[sl.Obj]; existed {
									g = False
								} else {
									arr := exit.Heap[sl.Obj].(sym.ArrV)
									g = And(g, fx.EqContent(arr.C, sl.Off, sym.CZero{W: 8}, sym.BV64(0), sl.Len))
								}
							}
							goals = append(goals, g)
							names = append(names, "Buffer")
							continue
						}
						goals = append(goals, fx.EqV(ws.F[i], gs.F[i]))
					}
					continue
				}
				goals = append(goals, fx.EqV(want, got))
				names = append(names, o.Name)
			}
			if l.NoRow && l.Field == "Len" && sto.kind == "buffer" {
				expect = nil
			}
			var aux interface{}
			if expect != nil {
				aux = expect
			}
			fx.ObligeAux(exit, name+"#post.state", "post", And(goals...), "", fmt.Sprintf("setter writes exactly the bits of %+v and nothing else", l), aux)
			return
		}
		// getter frame: nothing modified
		var goals []*Term
		for o, want := range entry.Heap {
			if got, ok := exit.Heap[o]; ok {
				goals = append(goals, fx.EqV(want, got))
			}
		}
		fx.Oblige(exit, name+"#frame", "frame", And(goals...), "", "getter modifies nothing")
	}
	return &sym.FnSpec{Requires: requires, Post: post}, ""
}
