package props

import (
	"strings"
	"time"

	"golang.org/x/tools/go/ssa"

	"verif/engine/internal/core"
	"verif/engine/internal/smt"
	"verif/engine/internal/sym"
)

func init() { Registry["C18"] = c18 }

var c18Parsers = []string{
	"uePolicyContainer.parseUEPolicyPart", "(*uePolicyContainer.UEPolicySectionContents).UnmarshalBinary",
	"uePolicyContainer.parseInstruction", "(*uePolicyContainer.UEPolicySectionManagementSubListContents).UnmarshalBinary",
	"uePolicyContainer.parseUEPlcSublist", "(*uePolicyContainer.UEPolicySectionManagementListContent).UnmarshalBinary",
	"uePolicyContainer.parseResult", "(*uePolicyContainer.UEPolicySectionManagementSubResultContents).UnmarshalBinary",
	"uePolicyContainer.parseUEPlcSubResult", "(*uePolicyContainer.UEPolicySectionManagementResultContent).UnmarshalBinary",
	"(*uePolicyContainer.UEPolicySectionManagementList).UnmarshalBinary", "(*uePolicyContainer.UEPolicySectionManagementResult).UnmarshalBinary",
	"(*uePolicyContainer.UEPolicySectionManagementSubList).SetPlmnDigit", "(*uePolicyContainer.UEPolicySectionManagementSubResult).SetPlmnDigit",
	// truncated / unknown messages are errors
	"(*uePolicyContainer.UePolDeliverySer).UePolDeliverySerDecode",
	// lengths computed from content on every encoding
	"(*uePolicyContainer.UEPolicyPart).MarshalBinary", "(*uePolicyContainer.Instruction).MarshalBinary",
	"(*uePolicyContainer.UEPolicySectionManagementSubList).MarshalBinary", "(*uePolicyContainer.UEPolicySectionManagementSubResult).MarshalBinary",
}

var c18Safety = []string{
	"(*uePolicyContainer.ManageUEPolicyCommand).DecodeManageUEPolicyCommand", "(*uePolicyContainer.ManageUEPolicyComplete).DecodeManageUEPolicyComplete",
	"(*uePolicyContainer.ManageUEPolicyReject).DecodeManageUEPolicyReject",
	"(*uePolicyContainer.UePolDeliverySer).UePolDeliverySerEncode",
	"(*uePolicyContainer.ManageUEPolicyCommand).EncodeManageUEPolicyCommand", "(*uePolicyContainer.ManageUEPolicyComplete).EncodeManageUEPolicyComplete",
	"(*uePolicyContainer.ManageUEPolicyReject).EncodeManageUEPolicyReject",
	"(*uePolicyContainer.UEPolicySectionContents).MarshalBinary",
	"(*uePolicyContainer.UEPolicySectionManagementSubListContents).MarshalBinary",
	"(*uePolicyContainer.UEPolicySectionManagementListContent).MarshalBinary",
	"(*uePolicyContainer.Result).MarshalBinary", "(*uePolicyContainer.UEPolicySectionManagementSubResultContents).MarshalBinary",
	"(*uePolicyContainer.UEPolicySectionManagementResultContent).MarshalBinary",
	"(*uePolicyContainer.UEPolicySectionManagementList).MarshalBinary", "(*uePolicyContainer.UEPolicySectionManagementResult).MarshalBinary",
	"(*uePolicyContainer.UEPolicySectionManagementList).GetUEPolicySectionManagementListContent", "(*uePolicyContainer.UEPolicySectionManagementList).SetUEPolicySectionManagementListContent",
	"(*uePolicyContainer.UEPolicySectionManagementResult).GetUEPolicySectionManagementResultContent", "(*uePolicyContainer.UEPolicySectionManagementResult).SetUEPolicySectionManagementResultContent",
}

var c18Lemmas = []string{
	"uePolicyContainer.verifLemmaPolicyPart", "uePolicyContainer.verifLemmaResult",
	"uePolicyContainer.verifLemmaInstruction2", "uePolicyContainer.verifLemmaSubList", "uePolicyContainer.verifLemmaList2",
	"uePolicyContainer.verifLemmaSubResult2", "uePolicyContainer.verifLemmaMessage",
	"uePolicyContainer.verifLemmaCommandNested", "uePolicyContainer.verifLemmaRejectNested",
}

func c18(w *core.World, rep *core.Report) {
	std(rep)
	rep.Explain = "Totality: every parser of the package (delivery message, section-management list and result, sublists, instructions, policy parts, results) is verified for arbitrary buffer contents of any length: no panic site is reachable and every list loop has the variant 'octets left in the buffer', which each successful sub-parse decreases by at least its fixed header (contracts on the parse functions, applied modularly). PLMN digits: SetPlmnDigit and the two sublist parsers are proved against the TS 24.008 10.5.1.3 digit order for all MCC/MNC. Round trips: lemma functions (verif_lemmas.go, build tag verif) build a structure through the API, encode it and parse the octets back; their postconditions state equality of all fields, lengths computed from content and an empty rest. They are executed with the package's parsers inlined (loops unrolled), with symbolic contents of any length and a fixed small number of list elements."
	jobs := ContractJobs(w, rep, c18Parsers)
	jobs = append(jobs, SafetyJobs(w, rep, c18Safety)...)
	RunJobs(w, rep, jobs)

	// lemma functions: inline the package's own functions instead of applying their (totality-only) contracts, and
	// execute their loops directly
	saved := map[string]sym.Contract{}
	for k, c := range w.Cx.Contracts {
		if strings.Contains(k, "uePolicyContainer") && !strings.Contains(k, "IDGenerator") && !strings.Contains(k, "NewGenerator") {
			saved[k] = c
			delete(w.Cx.Contracts, k)
		}
	}
	base := w.Cx.Loops
	w.Cx.Loops = func(fn *ssa.Function, ord int) *sym.LoopSpec {
		if fn.Pkg != nil && fn.Pkg.Pkg.Name() == "uePolicyContainer" {
			return nil
		}
		return base(fn, ord)
	}
	w.Cx.MaxVisits = 5
	QuickTimeout = 30 * time.Second // few, large obligations (nested encodings with contents of symbolic length)
	savedPaths := w.Cx.MaxPaths
	w.Cx.MaxPaths = 2000
	sym.Feasible = func(pc []*smt.Term) bool {
		r := smt.Solve(pc, smt.Options{Timeout: 2 * time.Second, OnlyFirst: true})
		return r.Status != "unsat"
	}
	lj := ContractJobs(w, rep, c18Lemmas)
	for i := range lj {
		switch lj[i].Fn.Name() {
		case "verifLemmaPolicyPart", "verifLemmaResult", "verifLemmaMessage":
			// contents of any length, no list of elements: general
		default:
			lj[i].Bounded = true
		}
	}
	RunJobs(w, rep, lj)
	sym.Feasible = nil
	w.Cx.MaxPaths = savedPaths
	w.Cx.Loops = base
	for k, c := range saved {
		w.Cx.Contracts[k] = c
	}
	rep.Bounded = append(rep.Bounded,
		core.Bounded{Function: "uePolicyContainer round-trip lemmas", Bound: "policy part, result and the three delivery messages: contents of any length; instruction: 2 parts of any length; sublist: 1 instruction with 1 part of any length; list: 2 sublists with one 2- and one 3-octet part; subresult: 2 results; end to end: a command (with and without classmark) carrying a nested list of 1 sublist / 1 instruction / 1 part, a reject carrying 1 subresult with 2 results"})
	rep.Floor = 300
	rep.AddUnique(&rep.Assumptions,
		"MCC/MNC are passed as integers by this API: an MCC below 100 or a 3-digit MNC below 100 (leading zeros) cannot be expressed; SetPlmnDigit is specified for the values it accepts",
		"encoders are specified for messages whose body is present (a nil body with the message type set is outside the statement)",
		"the round-trip lemmas build fresh structures; that a re-encoding after a change recomputes every length is the separate contract on the MarshalBinary functions")
}
