package props

import (
	"fmt"
	"go/types"
	"os"
	"strings"
	"time"

	"golang.org/x/tools/go/ssa"

	"verif/engine/internal/core"
	. "verif/engine/internal/smt"
	"verif/engine/internal/sym"
)

func init() { Registry["C13"] = c13 }

// ---- specification side: layouts of TS 24.501 written as term builders (independent of the code under check) ----

func bv64(v uint64) *Term { return BVC(64, v) }

func isDigitT(c *Term) *Term { return And(ULe(BVC(8, '0'), c), ULe(c, BVC(8, '9'))) }

func isHexT(c *Term) *Term {
	in := func(lo, hi uint64) *Term { return And(ULe(BVC(8, lo), c), ULe(c, BVC(8, hi))) }
	return Or(in('0', '9'), in('a', 'f'), in('A', 'F'))
}

func hexValT(c *Term) *Term {
	return Ite(ULe(c, BVC(8, '9')), Sub(c, BVC(8, '0')), Ite(ULe(BVC(8, 'a'), c), Sub(c, BVC(8, 'a'-10)), Sub(c, BVC(8, 'A'-10))))
}

func hexChT(n *Term) *Term {
	return Ite(ULt(n, BVC(8, 10)), Add(n, BVC(8, '0')), Add(n, BVC(8, 'a'-10)))
}

func unhexAt(c sym.Content, i uint64) *Term {
	return BOr(Shl(hexValT(c.Elem(bv64(i))), BVC(8, 4)), hexValT(c.Elem(bv64(i+1))))
}

func digitAt(c sym.Content, i uint64) *Term { return Sub(c.Elem(bv64(i)), BVC(8, '0')) }

// symbolic text of constant length n (content fully symbolic)
func symText(fx *sym.FnExec, name string, n uint64) (sym.StrV, sym.Content) {
	c := sym.CSym{A: fx.Cx.Fresh(name, Arr(64, 8))}
	return sym.StrV{C: c, Off: bv64(0), Len: bv64(n)}, c
}

type plmnIn struct {
	mcc, mnc sym.Content
	mnc3     *Term // MNC has three digits
	val      sym.StructV
}

func mkPlmn(fx *sym.FnExec, st *sym.State, name string) plmnIn {
	mccS, mcc := symText(fx, name+".Mcc", 3)
	mnc := sym.CSym{A: fx.Cx.Fresh(name+".Mnc", Arr(64, 8))}
	m3 := fx.Cx.Fresh(name+".mnc3", Bool)
	mncS := sym.StrV{C: mnc, Off: bv64(0), Len: Ite(m3, bv64(3), bv64(2)), Max: 3}
	for i := uint64(0); i < 3; i++ {
		st.Assume(isDigitT(mcc.Elem(bv64(i))))
	}
	st.Assume(And(isDigitT(mnc.Elem(bv64(0))), isDigitT(mnc.Elem(bv64(1))), Implies(m3, isDigitT(mnc.Elem(bv64(2))))))
	return plmnIn{mcc: mcc, mnc: mnc, mnc3: m3, val: sym.StructV{F: []sym.Value{mccS, mncS}}}
}

// PLMN octets of TS 24.008 10.5.1.3 / TS 24.501 9.11.3.9
func (p plmnIn) octets() [3]*Term {
	sh := func(hi, lo *Term) *Term { return BOr(Shl(hi, BVC(8, 4)), lo) }
	return [3]*Term{
		sh(digitAt(p.mcc, 1), digitAt(p.mcc, 0)),
		sh(Ite(p.mnc3, digitAt(p.mnc, 2), BVC(8, 15)), digitAt(p.mcc, 2)),
		sh(digitAt(p.mnc, 1), digitAt(p.mnc, 0)),
	}
}

func (p plmnIn) same(q plmnIn) *Term {
	cs := []*Term{Eq(p.mnc3, q.mnc3)}
	for i := uint64(0); i < 3; i++ {
		cs = append(cs, Eq(p.mcc.Elem(bv64(i)), q.mcc.Elem(bv64(i))))
	}
	cs = append(cs, Eq(p.mnc.Elem(bv64(0)), q.mnc.Elem(bv64(0))), Eq(p.mnc.Elem(bv64(1)), q.mnc.Elem(bv64(1))),
		Implies(p.mnc3, Eq(p.mnc.Elem(bv64(2)), q.mnc.Elem(bv64(2)))))
	return And(cs...)
}

type taiIn struct {
	plmn plmnIn
	tac  sym.Content
	val  sym.StructV
}

func mkTac(fx *sym.FnExec, st *sym.State, name string) (sym.StrV, sym.Content) {
	s, c := symText(fx, name, 6)
	for i := uint64(0); i < 6; i++ {
		st.Assume(isHexT(c.Elem(bv64(i))))
	}
	return s, c
}

func mkTaiList(fx *sym.FnExec, st *sym.State, listT types.Type, k int) (sym.SliceV, []taiIn) {
	sl := listT.Underlying().(*types.Slice)
	taiT := sl.Elem().Underlying().(*types.Struct)
	plmnPT := taiT.Field(0).Type().(*types.Pointer)
	var tais []taiIn
	var elems []sym.Value
	for i := 0; i < k; i++ {
		p := mkPlmn(fx, st, fmt.Sprintf("tai%d.PlmnId", i))
		po := fx.Cx.NewObj(fmt.Sprintf("tai%d.PlmnId", i), plmnPT.Elem(), sym.ProvParam)
		st.Heap[po] = p.val
		tacS, tac := mkTac(fx, st, fmt.Sprintf("tai%d.Tac", i))
		nid := fx.SymValue(st, types.Typ[types.String], fmt.Sprintf("tai%d.Nid", i), 0)
		v := sym.StructV{F: []sym.Value{sym.PtrV{Nil: False, Obj: po}, tacS, nid}}
		tais = append(tais, taiIn{plmn: p, tac: tac, val: v})
		elems = append(elems, v)
	}
	lo := fx.Cx.NewObj("taiList", listT, sym.ProvParam)
	st.Heap[lo] = sym.ArrS{Elems: elems}
	n := bv64(uint64(k))
	return sym.SliceV{Nil: False, Obj: lo, Off: bv64(0), Len: n, Cap: n}, tais
}

// 5GS tracking area identity list, 9.11.3.9: one partial list, type 00 (one PLMN, explicit TACs) when all PLMNs are
// equal, type 10 (explicit TAIs) otherwise; bits 5..1 of the first octet = number of elements - 1.
func taiListSpec(tais []taiIn) (allSame *Term, w0, w2 []*Term) {
	k := uint64(len(tais))
	var same []*Term
	for _, t := range tais[1:] {
		same = append(same, tais[0].plmn.same(t.plmn))
	}
	allSame = And(same...)
	w0 = append(w0, BVC(8, (0<<5)|(k-1)))
	p0 := tais[0].plmn.octets()
	w0 = append(w0, p0[:]...)
	for _, t := range tais {
		for j := uint64(0); j < 3; j++ {
			w0 = append(w0, unhexAt(t.tac, 2*j))
		}
	}
	w2 = append(w2, BVC(8, (2<<5)|(k-1)))
	for _, t := range tais {
		p := t.plmn.octets()
		w2 = append(w2, p[:]...)
		for j := uint64(0); j < 3; j++ {
			w2 = append(w2, unhexAt(t.tac, 2*j))
		}
	}
	return
}

func sliceContent(st *sym.State, v sym.Value) (sym.Content, *Term, *Term) {
	s := v.(sym.SliceV)
	if s.Obj == nil {
		return sym.CZero{W: 8}, bv64(0), s.Len
	}
	return st.Heap[s.Obj].(sym.ArrV).C, s.Off, s.Len
}

// eqVec: the n octets of c from off are exactly want (position by position, constant indices)
func eqVec(c sym.Content, off, n *Term, want []*Term) *Term {
	cs := []*Term{Eq(n, bv64(uint64(len(want))))}
	for j, t := range want {
		cs = append(cs, Eq(c.Elem(Add(off, bv64(uint64(j)))), t))
	}
	return And(cs...)
}

// expectBytes: replay oracle "the result is exactly these n octets" (evaluated under the counterexample)
func expectBytes(fx *sym.FnExec, c sym.Content, n *Term) *sym.Expect {
	o := fx.Cx.NewObj("expected", types.NewSlice(types.Typ[types.Uint8]), sym.ProvFresh)
	return &sym.Expect{HasResult: true, Result: sym.SliceV{Nil: False, Obj: o, Off: bv64(0), Len: n, Cap: n},
		Heap: map[*sym.Object]sym.Value{o: sym.ArrV{EW: 8, Len: n, C: c}}}
}

func vecContent(ts []*Term) sym.Content { return sym.CVec{E: ts, W: 8} }

func taiListJob(w *core.World, k int) Job {
	fn := w.Funcs["nasConvert.TaiListToNas"]
	var tais []taiIn
	return Job{Fn: fn, Spec: &sym.FnSpec{Tag: fmt.Sprintf("%d TAIs", k),
		Args: func(fx *sym.FnExec, st *sym.State) []sym.Value {
			l, ts := mkTaiList(fx, st, fn.Params[0].Type(), k)
			tais = ts
			return []sym.Value{l}
		},
		Post: func(fx *sym.FnExec, entry, exit *sym.State, args []sym.Value, ret sym.Value, ri int) {
			c, off, n := sliceContent(exit, ret)
			allSame, w0, w2 := taiListSpec(tais)
			ex := expectBytes(fx, sym.IteC(allSame, vecContent(w0), vecContent(w2)), Ite(allSame, bv64(uint64(len(w0))), bv64(uint64(len(w2)))))
			fx.ObligeAux(exit, "nasConvert.TaiListToNas#post.onePlmn", "post", Implies(allSame, eqVec(c, off, n, w0)), "", "9.11.3.9, all PLMNs equal: header (type of list 00, number of elements - 1), PLMN, then the 3-octet TACs", ex)
			fx.ObligeAux(exit, "nasConvert.TaiListToNas#post.manyPlmns", "post", Implies(Not(allSame), eqVec(c, off, n, w2)), "", "9.11.3.9, different PLMNs: header (type of list 10, number of elements - 1), then complete TAIs (PLMN, TAC)", ex)
		}}}
}

// ---- S-NSSAI lists ----

type snssaiIn struct {
	sst *Term // 32 bit
	has *Term // SD present
	sd  sym.Content
	val sym.StructV
}

func mkSnssai(fx *sym.FnExec, st *sym.State, name string) snssaiIn {
	sst := fx.Cx.Fresh(name+".Sst", BV(32))
	has := fx.Cx.Fresh(name+".hasSd", Bool)
	sd := sym.CSym{A: fx.Cx.Fresh(name+".Sd", Arr(64, 8))}
	for i := uint64(0); i < 6; i++ {
		st.Assume(Implies(has, isHexT(sd.Elem(bv64(i)))))
	}
	s := sym.StrV{C: sd, Off: bv64(0), Len: Ite(has, bv64(6), bv64(0)), Max: 6}
	return snssaiIn{sst: sst, has: has, sd: sd, val: sym.StructV{F: []sym.Value{sym.Scalar{T: sst}, s}}}
}

func mkSnssaiList(fx *sym.FnExec, st *sym.State, listT types.Type, name string, k int) (sym.SliceV, []snssaiIn) {
	var ins []snssaiIn
	var elems []sym.Value
	for i := 0; i < k; i++ {
		e := mkSnssai(fx, st, fmt.Sprintf("%s%d", name, i))
		ins = append(ins, e)
		elems = append(elems, e.val)
	}
	if k == 0 {
		return sym.SliceV{Nil: True, Off: bv64(0), Len: bv64(0), Cap: bv64(0)}, nil
	}
	lo := fx.Cx.NewObj(name, listT, sym.ProvParam)
	st.Heap[lo] = sym.ArrS{Elems: elems}
	n := bv64(uint64(k))
	return sym.SliceV{Nil: False, Obj: lo, Off: bv64(0), Len: n, Cap: n}, ins
}

// Rejected NSSAI contents, 9.11.3.46: per entry (length << 4 | cause), SST, optional SD.
func rejectedSpec(c sym.Content, off *Term, es []snssaiIn, cause uint64) (sym.Content, *Term) {
	for _, e := range es {
		c = sym.StoreC(c, off, Ite(e.has, BVC(8, 4<<4|cause), BVC(8, 1<<4|cause)))
		c = sym.StoreC(c, Add(off, bv64(1)), Extract(7, 0, e.sst))
		for j := uint64(0); j < 3; j++ {
			c = sym.StoreC(c, Add(off, bv64(2+j)), unhexAt(e.sd, 2*j))
		}
		off = Add(off, Ite(e.has, bv64(5), bv64(2)))
	}
	return c, off
}

func rejectedJob(w *core.World, k1, k2 int) Job {
	fn := w.Funcs["nasConvert.RejectedNssaiToNas"]
	var a, b []snssaiIn
	return Job{Fn: fn, Spec: &sym.FnSpec{Tag: fmt.Sprintf("%d+%d entries", k1, k2),
		Args: func(fx *sym.FnExec, st *sym.State) []sym.Value {
			l1, e1 := mkSnssaiList(fx, st, fn.Params[0].Type(), "inPlmn", k1)
			l2, e2 := mkSnssaiList(fx, st, fn.Params[1].Type(), "inTa", k2)
			a, b = e1, e2
			return []sym.Value{l1, l2}
		},
		Post: func(fx *sym.FnExec, entry, exit *sym.State, args []sym.Value, ret sym.Value, ri int) {
			r := ret.(sym.StructV) // Iei, Len, Buffer
			c, off, n := sliceContent(exit, r.F[2])
			var want sym.Content = sym.CZero{W: 8}
			want, o1 := rejectedSpec(want, bv64(0), a, 0)
			want, total := rejectedSpec(want, o1, b, 1)
			g := And(Eq(ZExt(64, r.F[1].(sym.Scalar).T), total), Eq(n, total), fx.EqContent(c, off, want, bv64(0), total))
			fx.Oblige(exit, "nasConvert.RejectedNssaiToNas#post", "post", g, "", "9.11.3.46: length octet = number of content octets; entries of the current-PLMN list with cause 0 first, then those of the registration-area list with cause 1; each entry (length<<4 | cause), SST, SD")
		}}}
}

// nssaiStep: octets taken by an entry with length octet L. For the legal lengths (at most 8) L+1 cannot wrap, so
// the 8-bit sum equals the mathematical one; it is written in the form the solver can match structurally.
func nssaiStep(L *Term) *Term { return ZExt(64, Add(L, BVC(8, 1))) }

func snLenOK(l *Term) *Term {
	var cs []*Term
	for _, v := range []uint64{1, 2, 4, 5, 8} {
		cs = append(cs, Eq(l, BVC(8, v)))
	}
	return Or(cs...)
}

func mkNssaiArg(fx *sym.FnExec, st *sym.State, pt types.Type) (sym.PtrV, sym.Content, *Term) {
	n8 := fx.Cx.Fresh("nssai.Len", BV(8))
	n := ZExt(64, n8)
	buf := sym.CSym{A: fx.Cx.Fresh("nssai.Buffer", Arr(64, 8))}
	bo := fx.Cx.NewObj("nssai.Buffer", types.NewSlice(types.Typ[types.Uint8]), sym.ProvParam)
	st.Heap[bo] = sym.ArrV{EW: 8, Len: n, C: buf}
	o := fx.Cx.NewObj("nssai", pt.(*types.Pointer).Elem(), sym.ProvParam)
	st.Heap[o] = sym.StructV{F: []sym.Value{sym.Scalar{T: fx.Cx.Fresh("nssai.Iei", BV(8))}, sym.Scalar{T: n8}, sym.SliceV{Nil: False, Obj: bo, Off: bv64(0), Len: n, Cap: n}}}
	return sym.PtrV{Nil: False, Obj: o}, buf, n
}

func hexOfT(s sym.StrV, at uint64, b *Term) *Term {
	return And(Eq(s.C.Elem(Add(s.Off, bv64(at))), hexChT(LShr(b, BVC(8, 4)))), Eq(s.C.Elem(Add(s.Off, bv64(at+1))), hexChT(BAnd(b, BVC(8, 15)))))
}

// nssaiDecodedJob: arbitrary contents (symbolic octets and length); on success every returned entry is the S-NSSAI
// value of 9.11.2.8 found at its offset, all length octets are legal and the entries cover the buffer exactly.
func nssaiDecodedJob(w *core.World) Job {
	fn := w.Funcs["nasConvert.RequestedNssaiToModels"]
	var buf sym.Content
	var n *Term
	return Job{Fn: fn, Spec: &sym.FnSpec{Tag: "any octets",
		Args: func(fx *sym.FnExec, st *sym.State) []sym.Value {
			p, b, l := mkNssaiArg(fx, st, fn.Params[0].Type())
			buf, n = b, l
			return []sym.Value{p}
		},
		Post: func(fx *sym.FnExec, entry, exit *sym.State, args []sym.Value, ret sym.Value, ri int) {
			name := "nasConvert.RequestedNssaiToModels#decoded"
			tv := ret.(sym.TupleV)
			isNil := Eq(tv.V[1].(sym.ErrV).Code, BVC(8, 0))
			list := tv.V[0].(sym.SliceV)
			if !list.Len.IsConst() {
				fx.Oblige(exit, name, "post", Not(isNil), "", "result list not tracked on this path")
				return
			}
			var es sym.ArrS
			if list.Obj != nil {
				a, ok := exit.Heap[list.Obj].(sym.ArrS)
				if !ok {
					fx.Oblige(exit, name, "post", Not(isNil), "", "result list not tracked on this path")
					return
				}
				es = a
			}
			at := func(o *Term, d uint64) *Term { return buf.Elem(Add(o, bv64(d))) }
			snssai := func(p sym.Value) (nilT *Term, sst *Term, sd sym.StrV) {
				pv := p.(sym.PtrV)
				if pv.Obj == nil {
					return True, BVC(32, 0), sym.StrV{C: sym.CZero{W: 8}, Off: bv64(0), Len: bv64(0)}
				}
				sv := exit.Heap[pv.Obj].(sym.StructV)
				return pv.Nil, sv.F[0].(sym.Scalar).T, sv.F[1].(sym.StrV)
			}
			sdAt := func(sd sym.StrV, o *Term, d uint64) *Term {
				return And(Eq(sd.Len, bv64(6)), hexOfT(sd, 0, at(o, d)), hexOfT(sd, 2, at(o, d+1)), hexOfT(sd, 4, at(o, d+2)))
			}
			off := bv64(0)
			var gs []*Term
			for i := 0; i < int(list.Len.Val); i++ {
				e := es.Elems[int(list.Off.Val)+i].(sym.StructV)
				L := at(off, 0)
				is := func(v uint64) *Term { return Eq(L, BVC(8, v)) }
				sNil, sSst, sSd := snssai(e.F[0])
				hNil, hSst, hSd := snssai(e.F[1])
				gs = append(gs, snLenOK(L), ULe(off, n), Not(SLt(Sub(n, off), Add(ZExt(64, L), bv64(1)))), // the entry fits: n - off >= L + 1
					Not(sNil), Eq(sSst, ZExt(32, at(off, 1))),
					Implies(Or(is(1), is(2)), Eq(sSd.Len, bv64(0))),
					Implies(Or(is(4), is(5), is(8)), sdAt(sSd, off, 2)),
					Eq(hNil, Or(is(1), is(4))),
					Implies(is(2), And(Eq(hSst, ZExt(32, at(off, 2))), Eq(hSd.Len, bv64(0)))),
					Implies(is(5), And(Eq(hSst, ZExt(32, at(off, 5))), Eq(hSd.Len, bv64(0)))),
					Implies(is(8), And(Eq(hSst, ZExt(32, at(off, 5))), sdAt(hSd, off, 6))))
				// entry by entry, each under the ones before (their length octets are legal, so L+1 does not wrap in 8 bits)
				fx.Oblige(exit, fmt.Sprintf("%s[entry %d of %d]", name, i, list.Len.Val), "post", Implies(isNil, And(gs...)), "", "9.11.3.37 / 9.11.2.8: the returned entry equals the S-NSSAI value at its offset (SST, SD, mapped SST, mapped SD by length 1/2/4/5/8); any other length octet or a short buffer is an error")
				exit.Assume(Implies(isNil, And(gs...)))
				gs = nil
				off = Add(off, nssaiStep(L))
			}
			// no octet is left over; with "the last entry fits" (n - off >= L + 1, proved above) this is off == n
			fx.Oblige(exit, name, "post", Implies(isNil, Not(SLt(off, n))), "", "the returned entries tile the contents exactly: nothing is left after the last entry")
		}}}
}

// nssaiWellFormedJob: contents that consist of exactly k well-formed entries decode without error into k entries.
func nssaiWellFormedJob(w *core.World, k int) Job {
	fn := w.Funcs["nasConvert.RequestedNssaiToModels"]
	return Job{Fn: fn, Spec: &sym.FnSpec{Tag: fmt.Sprintf("%d well-formed entries", k),
		Args: func(fx *sym.FnExec, st *sym.State) []sym.Value {
			p, buf, n := mkNssaiArg(fx, st, fn.Params[0].Type())
			// well-formed: every length octet is legal, every entry fits (n - off >= L + 1), nothing is left over
			off := bv64(0)
			for i := 0; i < k; i++ {
				L := buf.Elem(off)
				st.Assume(And(snLenOK(L), ULe(off, n), SLt(off, n), Not(SLt(Sub(n, off), Add(ZExt(64, L), bv64(1))))))
				off = Add(off, nssaiStep(L))
			}
			st.Assume(Not(SLt(off, n)))
			return []sym.Value{p}
		},
		Post: func(fx *sym.FnExec, entry, exit *sym.State, args []sym.Value, ret sym.Value, ri int) {
			tv := ret.(sym.TupleV)
			g := And(Eq(tv.V[1].(sym.ErrV).Code, BVC(8, 0)), Eq(tv.V[0].(sym.SliceV).Len, bv64(uint64(k))))
			fx.Oblige(exit, "nasConvert.RequestedNssaiToModels#wellformed", "post", g, "", "a well-formed NSSAI of k entries decodes without error into k entries")
		}}}
}

// ---- service area list ----

func serviceAreaJob(w *core.World, allowed bool, shape []int) Job {
	fn := w.Funcs["nasConvert.PartialServiceAreaListToNas"]
	var plmn plmnIn
	var tacs []sym.Content
	return Job{Fn: fn, Spec: &sym.FnSpec{Tag: fmt.Sprintf("allowed=%v areas=%v", allowed, shape),
		Args: func(fx *sym.FnExec, st *sym.State) []sym.Value {
			plmn = mkPlmn(fx, st, "plmnID")
			rt := fn.Params[1].Type().Underlying().(*types.Struct)
			areasT := rt.Field(1).Type()
			areaT := areasT.Underlying().(*types.Slice).Elem().Underlying().(*types.Struct)
			var areas []sym.Value
			for ai, nt := range shape {
				var ts []sym.Value
				for ti := 0; ti < nt; ti++ {
					s, c := mkTac(fx, st, fmt.Sprintf("area%d.tac%d", ai, ti))
					tacs = append(tacs, c)
					ts = append(ts, s)
				}
				var tl sym.Value = sym.SliceV{Nil: True, Off: bv64(0), Len: bv64(0), Cap: bv64(0)}
				if nt > 0 {
					to := fx.Cx.NewObj(fmt.Sprintf("area%d.Tacs", ai), areaT.Field(0).Type(), sym.ProvParam)
					st.Heap[to] = sym.ArrS{Elems: ts}
					tl = sym.SliceV{Nil: False, Obj: to, Off: bv64(0), Len: bv64(uint64(nt)), Cap: bv64(uint64(nt))}
				}
				areas = append(areas, sym.StructV{F: []sym.Value{tl, fx.SymValue(st, types.Typ[types.String], fmt.Sprintf("area%d.AreaCode", ai), 0)}})
			}
			ao := fx.Cx.NewObj("Areas", areasT, sym.ProvParam)
			st.Heap[ao] = sym.ArrS{Elems: areas}
			na := bv64(uint64(len(shape)))
			kind := "NOT_ALLOWED_AREAS"
			if allowed {
				kind = "ALLOWED_AREAS"
			}
			f := []sym.Value{sym.StrLit(kind), sym.SliceV{Nil: False, Obj: ao, Off: bv64(0), Len: na, Cap: na}}
			for i := 2; i < rt.NumFields(); i++ {
				f = append(f, fx.SymValue(st, rt.Field(i).Type(), "restriction."+rt.Field(i).Name(), 0))
			}
			return []sym.Value{plmn.val, sym.StructV{F: f}}
		},
		Post: func(fx *sym.FnExec, entry, exit *sym.State, args []sym.Value, ret sym.Value, ri int) {
			c, off, n := sliceContent(exit, ret)
			k := uint64(len(tacs))
			hdr := k - 1 // type of list 00, number of elements - 1
			if !allowed {
				hdr |= 0x80
			}
			var want sym.Content = sym.CZero{W: 8}
			want = sym.StoreC(want, bv64(0), BVC(8, hdr))
			for j, o := range plmn.octets() {
				want = sym.StoreC(want, bv64(1+uint64(j)), o)
			}
			for i, t := range tacs {
				for j := uint64(0); j < 3; j++ {
					want = sym.StoreC(want, bv64(4+3*uint64(i)+j), unhexAt(t, 2*j))
				}
			}
			total := bv64(4 + 3*k)
			fx.ObligeAux(exit, "nasConvert.PartialServiceAreaListToNas#post", "post", And(Eq(n, total), fx.EqContent(c, off, want, bv64(0), total)), "", "9.11.3.49: allowed type (bit 8), type of list 00, number of elements - 1 (= number of TACs - 1), PLMN, 3-octet TACs in order", expectBytes(fx, want, total))
		}}}
}

// ---- LADN ----

func ladnToNasJob(w *core.World, k int) Job {
	fn := w.Funcs["nasConvert.LadnToNas"]
	var tais []taiIn
	var dnn sym.StrV
	return Job{Fn: fn, Spec: &sym.FnSpec{Tag: fmt.Sprintf("%d TAIs", k),
		Args: func(fx *sym.FnExec, st *sym.State) []sym.Value {
			dnn = fx.SymValue(st, types.Typ[types.String], "dnn", 0).(sym.StrV)
			st.Assume(ULe(dnn.Len, bv64(255)))
			l, ts := mkTaiList(fx, st, fn.Params[1].Type(), k)
			tais = ts
			return []sym.Value{dnn, l}
		},
		Post: func(fx *sym.FnExec, entry, exit *sym.State, args []sym.Value, ret sym.Value, ri int) {
			c, off, n := sliceContent(exit, ret)
			allSame, w0, w2 := taiListSpec(tais)
			n0, n2 := bv64(uint64(len(w0))), bv64(uint64(len(w2)))
			tl := Ite(allSame, n0, n2)
			at := func(d *Term) *Term { return c.Elem(Add(off, d)) }
			p := Add(dnn.Len, bv64(1))
			g := And(Eq(n, Add(Add(dnn.Len, tl), bv64(2))),
				Eq(at(bv64(0)), Extract(7, 0, dnn.Len)),
				fx.EqContent(c, Add(off, bv64(1)), dnn.C, dnn.Off, dnn.Len),
				Eq(at(p), Extract(7, 0, tl)),
				Implies(allSame, eqVec(c, Add(off, Add(p, bv64(1))), n0, w0)),
				Implies(Not(allSame), eqVec(c, Add(off, Add(p, bv64(1))), n2, w2)))
			var want sym.Content = sym.CZero{W: 8}
			want = sym.StoreC(want, bv64(0), Extract(7, 0, dnn.Len))
			want = sym.CopyC(want, bv64(1), dnn.C, dnn.Off, dnn.Len)
			want = sym.StoreC(want, p, Extract(7, 0, tl))
			want = sym.CopyC(want, Add(p, bv64(1)), sym.IteC(allSame, vecContent(w0), vecContent(w2)), bv64(0), tl)
			fx.ObligeAux(exit, "nasConvert.LadnToNas#post", "post", g, "", "9.11.3.30: length of DNN value, DNN value octets, length of the TAI list, TAI list of 9.11.3.9", expectBytes(fx, want, Add(Add(dnn.Len, tl), bv64(2))))
		}}}
}

func mkBytesArg(fx *sym.FnExec, st *sym.State, name string) (sym.SliceV, sym.Content, *Term) {
	n := fx.Cx.Fresh(name+".len", BV(64))
	st.Assume(ULe(n, bv64(1<<20)))
	c := sym.CSym{A: fx.Cx.Fresh(name, Arr(64, 8))}
	o := fx.Cx.NewObj(name, types.NewSlice(types.Typ[types.Uint8]), sym.ProvParam)
	st.Heap[o] = sym.ArrV{EW: 8, Len: n, C: c}
	return sym.SliceV{Nil: False, Obj: o, Off: bv64(0), Len: n, Cap: n}, c, n
}

// ladnDecodedJob: LADN indication 9.11.3.29 = sequence of (length, DNN value). For arbitrary octets every returned
// DNN is the value found at its offset and decoding stops only at the end or at a truncated last entry.
func ladnDecodedJob(w *core.World) Job {
	fn := w.Funcs["nasConvert.LadnToModels"]
	var buf sym.Content
	var n *Term
	return Job{Fn: fn, Spec: &sym.FnSpec{Tag: "any octets",
		Args: func(fx *sym.FnExec, st *sym.State) []sym.Value {
			s, c, l := mkBytesArg(fx, st, "buf")
			buf, n = c, l
			return []sym.Value{s}
		},
		Post: func(fx *sym.FnExec, entry, exit *sym.State, args []sym.Value, ret sym.Value, ri int) {
			name := "nasConvert.LadnToModels#decoded"
			list := ret.(sym.SliceV)
			if !list.Len.IsConst() {
				fx.Oblige(exit, name, "post", False, "", "result list not tracked on this path")
				return
			}
			var es sym.ArrS
			if list.Obj != nil {
				a, ok := exit.Heap[list.Obj].(sym.ArrS)
				if !ok {
					fx.Oblige(exit, name, "post", False, "", "result list not tracked on this path")
					return
				}
				es = a
			}
			off := bv64(0)
			var gs []*Term
			for i := 0; i < int(list.Len.Val); i++ {
				s := es.Elems[int(list.Off.Val)+i].(sym.StrV)
				L := ZExt(64, buf.Elem(off))
				gs = append(gs, ULt(off, n), ULe(Add(off, Add(L, bv64(1))), n), Eq(s.Len, L), fx.EqContent(s.C, s.Off, buf, Add(off, bv64(1)), L))
				off = Add(off, Add(L, bv64(1)))
			}
			gs = append(gs, Or(Eq(off, n), And(ULt(off, n), ULt(n, Add(off, Add(ZExt(64, buf.Elem(off)), bv64(1)))))))
			fx.Oblige(exit, name, "post", And(gs...), "", "each returned DNN equals the value octets at its offset; decoding ends at the end of the contents or at a truncated last entry")
		}}}
}

// nssaiStepJob: RequestedNssaiToModels on ANY contents and any number of entries. The loop is cut at its invariant and
// one iteration is compared with the (arbitrary) state at the loop head: an iteration that reaches the back edge has
// read a legal length octet L at `offset`, the entry lies within the contents (offset + L + 1 <= length), `offset`
// advances by exactly L + 1 (so consecutive entries tile the contents), the result list grows by exactly one entry,
// and that entry is the S-NSSAI value found at `offset` (SST at +1; SD at +2 and mapped SST / SD at +5 / +6 as far
// as L says they are present). By induction over the iterations (paper step) every returned entry of a list of any
// length is the value found at its offset. The loop-carried variables are found through the header phis' source names.
func nssaiStepJob(w *core.World, base func(fn *ssa.Function, ord int) *sym.LoopSpec) (Job, func(fn *ssa.Function, ord int) *sym.LoopSpec) {
	fn := w.Funcs["nasConvert.RequestedNssaiToModels"]
	name := "nasConvert.RequestedNssaiToModels"
	var buf sym.Content
	var n *Term
	loops := func(f *ssa.Function, ord int) *sym.LoopSpec {
		ls := base(f, ord)
		if f != fn || ord != 0 || ls == nil {
			return ls
		}
		ls.OnBackEdge = func(fx *sym.FnExec, head *sym.State, headFr *sym.Frame, fr *sym.Frame, st *sym.State) {
			o0v, o1v, okO := loopCarried(fn, headFr, fr, "offset")
			l0v, l1v, okL := loopCarried(fn, headFr, fr, "requestNssai")
			if !okO || !okL {
				fx.Oblige(st, name+"#step.offset", "inv.preserve", False, "", "loop-carried offset / result list not found at the back edge")
				return
			}
			off0, off1 := o0v.(sym.Scalar).T, o1v.(sym.Scalar).T
			list0, list1 := l0v.(sym.SliceV), l1v.(sym.SliceV)
			L := buf.Elem(off0)
			fx.Oblige(st, name+"#step.offset", "inv.preserve",
				And(snLenOK(L), Eq(off1, Add(off0, nssaiStep(L))), ULe(off1, n), ULt(off0, n)), "",
				"an iteration that continues has read a legal length octet, its entry lies within the contents, and the offset advances by exactly length + 1")
			g := []*Term{Eq(list1.Len, Add(list0.Len, bv64(1)))}
			// the appended entry: the one-element argument list of the loop's only append call (the result list itself
			// is a slice of structs of symbolic length, whose contents the engine does not track)
			ent := onlyAppended(fn, fr, st, list1)
			e, ok := ent.(sym.StructV)
			if !ok {
				fx.Oblige(st, name+"#step.entry", "inv.preserve", False, "", "the loop does not carry the result of a single one-element append to the next iteration")
				return
			}
			at := func(d uint64) *Term { return buf.Elem(Add(off0, bv64(d))) }
			is := func(v uint64) *Term { return Eq(L, BVC(8, v)) }
			snssai := func(p sym.Value) (nilT *Term, sst *Term, sd sym.StrV) {
				pv := p.(sym.PtrV)
				if pv.Obj == nil {
					return True, BVC(32, 0), sym.StrV{C: sym.CZero{W: 8}, Off: bv64(0), Len: bv64(0)}
				}
				sv := st.Heap[pv.Obj].(sym.StructV)
				return pv.Nil, sv.F[0].(sym.Scalar).T, sv.F[1].(sym.StrV)
			}
			sdAt := func(sd sym.StrV, d uint64) *Term {
				return And(Eq(sd.Len, bv64(6)), hexOfT(sd, 0, at(d)), hexOfT(sd, 2, at(d+1)), hexOfT(sd, 4, at(d+2)))
			}
			sNil, sSst, sSd := snssai(e.F[0])
			hNil, hSst, hSd := snssai(e.F[1])
			g = append(g, Not(sNil), Eq(sSst, ZExt(32, at(1))),
				Implies(Or(is(1), is(2)), Eq(sSd.Len, bv64(0))),
				Implies(Or(is(4), is(5), is(8)), sdAt(sSd, 2)),
				Implies(Or(is(1), is(4)), hNil),
				Implies(is(2), And(Not(hNil), Eq(hSst, ZExt(32, at(2))), Eq(hSd.Len, bv64(0)))),
				Implies(is(5), And(Not(hNil), Eq(hSst, ZExt(32, at(5))), Eq(hSd.Len, bv64(0)))),
				Implies(is(8), And(Not(hNil), Eq(hSst, ZExt(32, at(5))), sdAt(hSd, 6))))
			fx.Oblige(st, name+"#step.entry", "inv.preserve", And(g...), "",
				"an iteration appends exactly one entry, the S-NSSAI value of 9.11.2.8 found at the offset it started from")
		}
		return ls
	}
	job := Job{Fn: fn, Spec: &sym.FnSpec{Tag: "any octets: step relation of the decoder loop",
		Args: func(fx *sym.FnExec, st *sym.State) []sym.Value {
			p, b, l := mkNssaiArg(fx, st, fn.Params[0].Type())
			buf, n = b, l
			return []sym.Value{p}
		}}}
	return job, loops
}

// loopCarried returns the value of the source variable vname at the head of fn's first loop (from headFr) and the
// value carried to the next iteration at the back edge (from fr); the loop must have a single back edge.
func loopCarried(fn *ssa.Function, headFr, fr *sym.Frame, vname string) (sym.Value, sym.Value, bool) {
	hs := sym.LoopHeaders(fn)
	if len(hs) == 0 {
		return nil, nil, false
	}
	h := hs[0]
	for _, in := range h.Instrs {
		phi, ok := in.(*ssa.Phi)
		if !ok || phi.Comment != vname {
			continue
		}
		v0, ok0 := headFr.Env[phi]
		if !ok0 {
			return nil, nil, false
		}
		inLoop := sym.LoopBlocks(h)
		var back []ssa.Value
		for i, pr := range h.Preds {
			if inLoop[pr] {
				back = append(back, phi.Edges[i])
			}
		}
		if len(back) != 1 {
			return nil, nil, false
		}
		v1, ok1 := fr.Env[back[0]]
		return v0, v1, ok1
	}
	return nil, nil, false
}

// onlyAppended returns the single element passed to fn's only append call, provided that call's result is the list
// carried to the next iteration (list1); nil otherwise.
func onlyAppended(fn *ssa.Function, fr *sym.Frame, st *sym.State, list1 sym.SliceV) sym.Value {
	var ent sym.Value
	nApp := 0
	for _, b := range fn.Blocks {
		for _, in := range b.Instrs {
			c, ok := in.(*ssa.Call)
			if !ok {
				continue
			}
			if bi, ok := c.Call.Value.(*ssa.Builtin); !ok || bi.Name() != "append" || len(c.Call.Args) != 2 {
				continue
			}
			nApp++
			if av, ok := fr.Env[c.Call.Args[1]].(sym.SliceV); ok && av.Obj != nil && av.Len.IsConst() && av.Len.Val == 1 && av.Off.IsConst() {
				if a, ok := st.Heap[av.Obj].(sym.ArrS); ok && int(av.Off.Val) < len(a.Elems) {
					ent = a.Elems[av.Off.Val]
				}
			}
			if r, ok := fr.Env[c].(sym.SliceV); !ok || r.Obj != list1.Obj {
				ent = nil // the list carried to the next iteration is not this append's result
			}
		}
	}
	if nApp != 1 {
		return nil
	}
	return ent
}

// ladnStepJob: LadnToModels on ANY contents and any number of DNNs (same decomposition as nssaiStepJob): every
// iteration that reaches the back edge started at an offset within the contents, read the length octet L there,
// lies within the contents (offset + 1 + L <= length), advances the offset by exactly 1 + L and appends exactly one
// string, whose octets are the L octets after the length octet.
func ladnStepJob(w *core.World, base func(fn *ssa.Function, ord int) *sym.LoopSpec) (Job, func(fn *ssa.Function, ord int) *sym.LoopSpec) {
	fn := w.Funcs["nasConvert.LadnToModels"]
	name := "nasConvert.LadnToModels"
	var buf sym.Content
	var n *Term
	loops := func(f *ssa.Function, ord int) *sym.LoopSpec {
		ls := base(f, ord)
		if f != fn || ord != 0 || ls == nil {
			return ls
		}
		ls.OnBackEdge = func(fx *sym.FnExec, head *sym.State, headFr *sym.Frame, fr *sym.Frame, st *sym.State) {
			o0v, o1v, okO := loopCarried(fn, headFr, fr, "bufOffset")
			l0v, l1v, okL := loopCarried(fn, headFr, fr, "dnnValues")
			if !okO || !okL {
				fx.Oblige(st, name+"#step.offset", "inv.preserve", False, "", "loop-carried offset / result list not found at the back edge")
				return
			}
			off0, off1 := o0v.(sym.Scalar).T, o1v.(sym.Scalar).T
			list0, list1 := l0v.(sym.SliceV), l1v.(sym.SliceV)
			L := ZExt(64, buf.Elem(off0))
			fx.Oblige(st, name+"#step.offset", "inv.preserve",
				And(ULt(off0, n), Eq(off1, Add(off0, Add(L, bv64(1)))), ULe(off1, n)), "",
				"an iteration that continues started within the contents, its entry lies within the contents, and the offset advances by exactly 1 + length")
			e, ok := onlyAppended(fn, fr, st, list1).(sym.StrV)
			if !ok {
				fx.Oblige(st, name+"#step.entry", "inv.preserve", False, "", "the loop does not carry the result of a single one-element append to the next iteration")
				return
			}
			fx.Oblige(st, name+"#step.entry", "inv.preserve",
				And(Eq(list1.Len, Add(list0.Len, bv64(1))), Eq(e.Len, L), fx.EqContent(e.C, e.Off, buf, Add(off0, bv64(1)), L)), "",
				"an iteration appends exactly one DNN, the value octets that follow the length octet it read")
		}
		return ls
	}
	job := Job{Fn: fn, Spec: &sym.FnSpec{Tag: "any octets: step relation of the decoder loop",
		Args: func(fx *sym.FnExec, st *sym.State) []sym.Value {
			s, c, l := mkBytesArg(fx, st, "buf")
			buf, n = c, l
			return []sym.Value{s}
		}}}
	return job, loops
}

func c13(w *core.World, rep *core.Report) {
	std(rep)
	thorough := rep.Tier == "thorough"
	rep.Explain = "Per-entry converters (SnssaiToNas, RejectedSnssaiToNas, SnssaiToModels, snssaiToModels) carry contracts stating the octets / fields of TS 24.501 9.11.2.8 and 9.11.3.46 and are proved for all values. The list encoders and decoders are executed symbolically with the loops unrolled on lists of every length up to the bound stated per function (entries fully symbolic: SST, SD present or absent, PLMN digits with 2- or 3-digit MNC, TACs, DNN text of any length) and compared with an independent description of the layout written as term builders from 9.11.3.9, 9.11.3.29, 9.11.3.30, 9.11.3.37, 9.11.3.46 and 9.11.3.49; the decoders are also run on arbitrary octets: every returned entry must be the value found at its offset, entries must tile the contents, and malformed lengths must be errors. For RequestedNssaiToModels and LadnToModels the same statement is also proved per iteration for contents with ANY number of entries: the loop is cut at its invariant and every iteration that continues is shown, from an arbitrary loop-head state, to have read a legal length octet, to stay within the contents, to advance the offset by exactly length + 1 and to append exactly one entry, the S-NSSAI value (the DNN value octets, for LadnToModels) found at the offset (induction over iterations on paper)."
	jobs := ContractJobs(w, rep, []string{"nasConvert.SnssaiToModels", "nasConvert.SnssaiToNas", "nasConvert.RejectedSnssaiToNas", "nasConvert.snssaiToModels"})
	RunJobs(w, rep, jobs)

	// NSSAI decoder for any number of entries: step relation at the loop cut
	base := w.Cx.Loops
	nsJob, nsLoops := nssaiStepJob(w, base)
	w.Cx.Loops = nsLoops
	RunJobs(w, rep, []Job{nsJob})
	ldJob, ldLoops := ladnStepJob(w, base)
	w.Cx.Loops = ldLoops
	RunJobs(w, rep, []Job{ldJob})
	w.Cx.Loops = base
	// list functions: loops executed directly
	w.Cx.Loops = func(fn *ssa.Function, ord int) *sym.LoopSpec {
		switch fn.Name() {
		case "RequestedNssaiToModels", "LadnToModels":
			return nil
		}
		return base(fn, ord)
	}
	defer func() { w.Cx.Loops = base }()
	maxTai, maxRej, maxNssai, maxLadn := 16, 8, 8, 4
	QuickTimeout = 40 * time.Second // few, large obligations (lists of up to 16 fully symbolic entries)
	// the list functions take a handful of paths per list length on the current tree; a tree on which they take
	// hundreds is not explored further (the job is reported as undecided)
	savedPaths := w.Cx.MaxPaths
	w.Cx.MaxPaths = 300
	defer func() { w.Cx.MaxPaths = savedPaths }()
	w.Cx.MaxVisits = 40
	jobs = nil
	for k := 1; k <= maxTai; k++ {
		jobs = append(jobs, taiListJob(w, k))
	}
	for k1 := 0; k1 <= maxRej; k1++ {
		for k2 := 0; k1+k2 <= maxRej; k2++ {
			if !thorough && k1+k2 > 4 && k1 != 0 && k2 != 0 && k1 != k2 {
				continue
			}
			jobs = append(jobs, rejectedJob(w, k1, k2))
		}
	}
	for k := 0; k <= maxNssai; k++ {
		jobs = append(jobs, nssaiWellFormedJob(w, k))
	}
	for _, allowed := range []bool{true, false} {
		for t := 1; t <= 16; t++ {
			jobs = append(jobs, serviceAreaJob(w, allowed, []int{t}))
		}
		for _, sh := range [][]int{{1, 1}, {2, 3}, {3, 2, 1}, {0, 2}, {8, 8}} {
			jobs = append(jobs, serviceAreaJob(w, allowed, sh))
		}
	}
	for k := 1; k <= maxLadn; k++ {
		jobs = append(jobs, ladnToNasJob(w, k))
	}
	filter := func(jobs []Job) []Job {
		only := os.Getenv("C13_ONLY")
		if only == "" {
			return jobs
		}
		var sel []Job
		for _, j := range jobs {
			if strings.Contains(j.Fn.Name()+" "+j.Spec.Tag, only) {
				sel = append(sel, j)
			}
		}
		return sel
	}
	RunJobs(w, rep, MarkBounded(filter(jobs)))

	// decoders on arbitrary octets: paths with more entries than the bound are not explored
	w.Cx.MaxVisits = maxNssai + 2
	w.Cx.UnwindDrop = true
	RunJobs(w, rep, MarkBounded(filter([]Job{nssaiDecodedJob(w), ladnDecodedJob(w)})))
	w.Cx.UnwindDrop = false

	rep.Bounded = append(rep.Bounded,
		core.Bounded{Function: "nasConvert.TaiListToNas", Bound: fmt.Sprintf("lists of 1..%d TAIs (the property's range), all contents symbolic", maxTai)},
		core.Bounded{Function: "nasConvert.RejectedNssaiToNas", Bound: fmt.Sprintf("two lists with up to %d entries together (quick: all pairs up to 4 in total plus one-sided, empty and equal splits up to %d)", maxRej, maxRej)},
		core.Bounded{Function: "nasConvert.RequestedNssaiToModels", Bound: fmt.Sprintf("complete result list: contents that decode into at most %d entries (the NSSAI maximum); arbitrary octets otherwise. The per-iteration step relation (legal length octet, entry within the contents, offset advances by length + 1, exactly one entry appended and it is the value at the offset) holds for any number of entries", maxNssai)},
		core.Bounded{Function: "nasConvert.PartialServiceAreaListToNas", Bound: "one area with 1..16 TACs and five multi-area shapes (up to 16 TACs), both restriction types"},
		core.Bounded{Function: "nasConvert.LadnToNas", Bound: fmt.Sprintf("DNN text of any length up to 255 octets, TAI lists of 1..%d entries", maxLadn)},
		core.Bounded{Function: "nasConvert.LadnToModels", Bound: fmt.Sprintf("complete result list: contents that decode into at most %d DNNs. The per-iteration step relation (offset within the contents, advances by 1 + length, exactly one DNN appended and it is the value after the length octet) holds for any number of DNNs", maxNssai)})
	rep.Floor = 200
	rep.AddUnique(&rep.Assumptions,
		"inputs of the encoders are well-formed in the sense of the property: SD absent or 6 hexadecimal digits, MCC 3 digits, MNC 2 or 3 digits, TAC 6 hexadecimal digits, at least one TAI / TAC; ill-formed text is logged and skipped by the library and is outside the statement",
		"the DNN value inside a LADN entry is compared octet for octet with the text given; neither LadnToNas nor LadnToModels applies the label coding of 9.11.2.1B",
		"RequestedNssaiToModels / LadnToModels step relations: the entry checked is the one-element argument of the loop's only append, whose result is the list carried to the next iteration; that append keeps the earlier entries is Go's semantics of append, not an obligation (slices of structs of symbolic length have no tracked contents in the engine)",
		"trusted models: hex.DecodeString / EncodeToString, reflect.DeepEqual on *models.PlmnId (field-wise string equality), strconv.Atoi on single characters")
}
