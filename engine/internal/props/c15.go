package props

import (
	"time"

	"golang.org/x/tools/go/ssa"

	"verif/engine/internal/core"
	"verif/engine/internal/smt"
	"verif/engine/internal/sym"
)

func init() { Registry["C15"] = c15 }

var c15Parsers = []string{
	"(*nasType.PacketFilterComponentList).UnmarshalBinary", "nasType.parsePacketFilterList", "nasType.parsePacketFilterDeleteList",
	"(*nasType.QoSRules).UnmarshalBinary",
	"nasType.parseQoSFlowParameterList", "nasType.parseQoSFlowDesc", "(*nasType.QoSFlowDescs).UnmarshalBinary",
}

var c15Lemmas = []string{
	"nasType.verifLemmaRuleComponents", "nasType.verifLemmaRuleOperations", "nasType.verifLemmaFlowDescs",
	"nasType.verifLemmaRuleFilters15", "nasType.verifLemmaFlowParameters63",
}

var c15Unknown = []string{"nasType.verifLemmaUnknownComponent", "nasType.verifLemmaUnknownParameter"}

func c15(w *core.World, rep *core.Report) {
	std(rep)
	rep.Explain = "Totality: QoSRules.UnmarshalBinary, QoSFlowDescs.UnmarshalBinary and every nested parser (packet filter lists, component lists with all 18 component parsers dispatched through the interface, parameter lists with the 7 parameter parsers) are verified for buffers of arbitrary contents and length: no panic site is reachable, loops have variants (octets left, or a counter bounded by one octet). Unknown identifiers: lemma functions feed a component list / parameter list that starts with an arbitrary identifier and arbitrary rest; for every identifier outside the known set the result must be an error. Round trips and layout: lemma functions (verif_lemmas.go, build tag verif) build a rule with all 18 component types, rules with each of the six operations, and descriptions with all 7 parameter kinds from symbolic field values, serialise, parse back and compare field by field in Go; the contract requires ok for all field values and pins the serialised octets to the layout of 9.11.4.13 / 9.11.4.12."
	RunJobs(w, rep, ContractJobs(w, rep, c15Parsers))

	// lemma functions: parsers inlined, loops executed directly
	saved := map[string]sym.Contract{}
	for _, k := range c15Parsers {
		if fn := w.Funcs[k]; fn != nil {
			if c, ok := w.Cx.Contracts[fn.String()]; ok {
				saved[fn.String()] = c
				delete(w.Cx.Contracts, fn.String())
			}
		}
	}
	qos := map[string]bool{}
	for _, k := range c15Parsers {
		if fn := w.Funcs[k]; fn != nil {
			qos[fn.String()] = true
		}
	}
	base := w.Cx.Loops
	w.Cx.Loops = func(fn *ssa.Function, ord int) *sym.LoopSpec {
		if qos[fn.String()] {
			return nil
		}
		return base(fn, ord)
	}
	defer func() {
		w.Cx.Loops = base
		for k, c := range saved {
			w.Cx.Contracts[k] = c
		}
		sym.Feasible = nil
	}()
	QuickTimeout = 30 * time.Second
	savedPaths := w.Cx.MaxPaths
	w.Cx.MaxPaths = 3000
	w.Cx.MaxVisits = 80
	sym.Feasible = func(pc []*smt.Term) bool {
		return smt.Solve(pc, smt.Options{Timeout: 2 * time.Second, OnlyFirst: true}).Status != "unsat"
	}
	// concrete shapes: keep paths apart (merging an error path into the main one would make the encoded octets
	// conditional and every later read symbolic)
	w.Cx.NoMerge = true
	RunJobs(w, rep, MarkBounded(ContractJobs(w, rep, c15Lemmas)))
	w.Cx.NoMerge = false
	// unknown identifiers: only the first element matters; deeper iterations on the arbitrary rest are not explored
	w.Cx.MaxVisits = 2
	w.Cx.UnwindDrop = true
	sym.Feasible = nil
	RunJobs(w, rep, ContractJobs(w, rep, c15Unknown))
	w.Cx.UnwindDrop = false
	w.Cx.MaxPaths = savedPaths
	rep.Bounded = append(rep.Bounded,
		core.Bounded{Function: "nasType QoS round-trip lemmas", Bound: "fixed shapes with symbolic field values: one create rule with one packet filter holding all 18 component types; two rules (each of the 6 operations with 2 packet filters, plus a delete rule without filters); two descriptions (7 parameters of the 7 kinds, and none); the boundary counts 15 packet filters and 63 parameters. Lists of other lengths (0-15 filters, 0-63 parameters) are covered by the totality proof only"})
	rep.Floor = 300
	rep.AddUnique(&rep.Assumptions,
		"encoders are exercised on the concrete component / parameter types of the package (lists holding other implementations of the interfaces are outside the statement)",
		"IPv6 address component types (0x21, 0x23) are declared but not implemented by the factory: they are 'unknown' to the parser and reported as errors")
}
