package props

import "verif/engine/internal/core"

func init() { Registry["C11"] = c11 }

var c11Funcs = []string{
	"(*security.Count).maskTo24Bits", "(*security.Count).Set", "(*security.Count).Get", "(*security.Count).AddOne",
	"(*security.Count).SQN", "(*security.Count).SetSQN", "(*security.Count).Overflow", "(*security.Count).SetOverflow",
}

func c11(w *core.World, rep *core.Report) {
	std(rep)
	rep.Explain = "Representation invariant count < 2^24 and the abstract view (overflow = bits 8..23, sqn = bits 0..7) are pre/postconditions of every method of security.Count; every method is verified from a fully symbolic 32-bit state satisfying the invariant, callers use callee contracts. Histories follow by induction over operations: the field is unexported and written only by these methods."
	rep.Floor = 20
	RunJobs(w, rep, ContractJobs(w, rep, c11Funcs))
	rep.AddUnique(&rep.Assumptions, "induction over operation histories (zero value satisfies the invariant, every method preserves it, no other writer of the unexported field) is a paper argument over the per-method obligations")
}
