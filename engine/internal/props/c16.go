package props

import (
	"fmt"
	"go/ast"
	"go/types"

	"golang.org/x/tools/go/ssa"

	"verif/engine/internal/core"
	. "verif/engine/internal/smt"
	"verif/engine/internal/sym"
)

func init() { Registry["C16"] = c16 }

type pcoUnit struct {
	id, ln   *Term
	contents sym.SliceV
	carr     sym.Content
}

// pcoReceiver builds a *ProtocolConfigurationOptions holding k units with symbolic identifier, length and contents
// (well-formed: LengthOfContents == len(Contents)).
func pcoReceiver(fx *sym.FnExec, st *sym.State, recvT types.Type, k int) (sym.PtrV, []pcoUnit) {
	pt := recvT.(*types.Pointer).Elem()
	stT := pt.Underlying().(*types.Struct)
	listT := stT.Field(0).Type().(*types.Slice)
	unitPT := listT.Elem().(*types.Pointer)
	var units []pcoUnit
	var elems []sym.Value
	for i := 0; i < k; i++ {
		id := fx.Cx.Fresh(fmt.Sprintf("u%d.id", i), BV(16))
		ln := fx.Cx.Fresh(fmt.Sprintf("u%d.len", i), BV(8))
		arr := sym.CSym{A: fx.Cx.Fresh(fmt.Sprintf("u%d.contents", i), Arr(64, 8))}
		co := fx.Cx.NewObj(fmt.Sprintf("u%d.contents", i), types.NewSlice(types.Typ[types.Uint8]), sym.ProvParam)
		st.Heap[co] = sym.ArrV{EW: 8, Len: ZExt(64, ln), C: arr}
		sl := sym.SliceV{Nil: False, Obj: co, Off: BVC(64, 0), Len: ZExt(64, ln), Cap: ZExt(64, ln)}
		uo := fx.Cx.NewObj(fmt.Sprintf("u%d", i), unitPT.Elem(), sym.ProvParam)
		st.Heap[uo] = sym.StructV{F: []sym.Value{sym.Scalar{T: id}, sym.Scalar{T: ln}, sl}}
		elems = append(elems, sym.PtrV{Nil: False, Obj: uo})
		units = append(units, pcoUnit{id: id, ln: ln, contents: sl, carr: arr})
	}
	lo := fx.Cx.NewObj("list", listT, sym.ProvParam)
	st.Heap[lo] = sym.ArrS{Elems: elems}
	n := BVC(64, uint64(k))
	ro := fx.Cx.NewObj("pco", pt, sym.ProvParam)
	st.Heap[ro] = sym.StructV{F: []sym.Value{sym.SliceV{Nil: False, Obj: lo, Off: BVC(64, 0), Len: n, Cap: n}}}
	return sym.PtrV{Nil: False, Obj: ro}, units
}

// pcoEncoding: 0x80 followed by id(2) || length(1) || contents of every unit.
func pcoEncoding(units []pcoUnit) (sym.Content, *Term) {
	var c sym.Content = sym.CZero{W: 8}
	c = sym.StoreC(c, BVC(64, 0), BVC(8, 0x80))
	ln := BVC(64, 1)
	for _, u := range units {
		c = sym.StoreC(c, ln, Extract(15, 8, u.id))
		c = sym.StoreC(c, Add(ln, BVC(64, 1)), Extract(7, 0, u.id))
		c = sym.StoreC(c, Add(ln, BVC(64, 2)), u.ln)
		ln = Add(ln, BVC(64, 3))
		c = sym.CopyC(c, ln, u.carr, BVC(64, 0), ZExt(64, u.ln))
		ln = Add(ln, ZExt(64, u.ln))
	}
	return c, ln
}

func pcoJobs(w *core.World, rep *core.Report, maxMarshal, maxRound int) []Job {
	var jobs []Job
	mfn := w.Funcs["(*nasConvert.ProtocolConfigurationOptions).Marshal"]
	ufn := w.Funcs["(*nasConvert.ProtocolConfigurationOptions).UnMarshal"]
	if mfn == nil || ufn == nil {
		rep.Aborted["(*nasConvert.ProtocolConfigurationOptions).Marshal"] = "contract-binding: function not found"
		return nil
	}
	for k := 0; k <= maxMarshal; k++ {
		k := k
		var units []pcoUnit
		jobs = append(jobs, Job{Fn: mfn, Spec: &sym.FnSpec{
			Args: func(fx *sym.FnExec, st *sym.State) []sym.Value {
				r, us := pcoReceiver(fx, st, mfn.Params[0].Type(), k)
				units = us
				return []sym.Value{r}
			},
			Post: func(fx *sym.FnExec, entry, exit *sym.State, args []sym.Value, ret sym.Value, ri int) {
				out := ret.(sym.SliceV)
				want, ln := pcoEncoding(units)
				var got sym.Content = sym.CZero{W: 8}
				if out.Obj != nil {
					got = exit.Heap[out.Obj].(sym.ArrV).C
				}
				name := fmt.Sprintf("(*nasConvert.ProtocolConfigurationOptions).Marshal#post[%d units]", k)
				eo := fx.Cx.NewObj("expected", types.NewSlice(types.Typ[types.Uint8]), sym.ProvFresh)
				ex := &sym.Expect{HasResult: true, Result: sym.SliceV{Nil: False, Obj: eo, Off: BVC(64, 0), Len: ln, Cap: ln},
					Heap: map[*sym.Object]sym.Value{eo: sym.ArrV{EW: 8, Len: ln, C: want}}}
				fx.ObligeAux(exit, name, "post", And(Eq(out.Len, ln), fx.EqContent(got, out.Off, want, BVC(64, 0), ln)), "", "configuration-protocol octet 0x80 first, then identifier (2, big-endian), length, contents of each unit in order", ex)
				var gs []*Term
				for o, v0 := range entry.Heap {
					if v1, ok := exit.Heap[o]; ok {
						gs = append(gs, fx.EqV(v0, v1))
					}
				}
				fx.Oblige(exit, name+".frame", "frame", And(gs...), "", "Marshal does not modify the list")
			},
		}})
	}
	for k := 0; k <= maxRound; k++ {
		k := k
		var units []pcoUnit
		jobs = append(jobs, Job{Fn: ufn, Spec: &sym.FnSpec{
			Args: func(fx *sym.FnExec, st *sym.State) []sym.Value {
				// receiver: empty list; data: the encoding of k symbolic units
				r, _ := pcoReceiver(fx, st, ufn.Params[0].Type(), 0)
				_, us := pcoReceiver(fx, st, ufn.Params[0].Type(), k)
				units = us
				c, ln := pcoEncoding(units)
				do := fx.Cx.NewObj("data", types.NewSlice(types.Typ[types.Uint8]), sym.ProvParam)
				st.Heap[do] = sym.ArrV{EW: 8, Len: ln, C: c}
				return []sym.Value{r, sym.SliceV{Nil: False, Obj: do, Off: BVC(64, 0), Len: ln, Cap: ln}}
			},
			Post: func(fx *sym.FnExec, entry, exit *sym.State, args []sym.Value, ret sym.Value, ri int) {
				name := fmt.Sprintf("(*nasConvert.ProtocolConfigurationOptions).UnMarshal#roundtrip[%d units]", k)
				isNil := Eq(ret.(sym.ErrV).Code, BVC(8, 0))
				r := args[0].(sym.PtrV)
				list := exit.Heap[r.Obj].(sym.StructV).F[0].(sym.SliceV)
				gs := []*Term{isNil, Eq(list.Len, BVC(64, uint64(k)))}
				if list.Obj != nil && list.Len.IsConst() && int(list.Len.Val) == k {
					if es, ok := exit.Heap[list.Obj].(sym.ArrS); ok {
						for i := 0; i < k; i++ {
							p, ok := es.Elems[int(list.Off.Val)+i].(sym.PtrV)
							if !ok || p.Obj == nil {
								gs = append(gs, False)
								continue
							}
							u := exit.Heap[p.Obj].(sym.StructV)
							gs = append(gs, Not(p.Nil), Eq(u.F[0].(sym.Scalar).T, units[i].id), Eq(u.F[1].(sym.Scalar).T, units[i].ln))
							cs := u.F[2].(sym.SliceV)
							gs = append(gs, Eq(cs.Len, ZExt(64, units[i].ln)))
							if cs.Obj != nil {
								if _, existed := entry.Heap[cs.Obj]; existed {
									gs = append(gs, False) // contents must be a copy, not a view of the input
								} else {
									gs = append(gs, fx.EqContent(exit.Heap[cs.Obj].(sym.ArrV).C, cs.Off, units[i].carr, BVC(64, 0), cs.Len))
								}
							} else {
								gs = append(gs, Eq(units[i].ln, BVC(8, 0)))
							}
						}
					} else {
						gs = append(gs, False)
					}
				} else if k > 0 {
					gs = append(gs, False)
				}
				fx.Oblige(exit, name, "post", And(gs...), "", "parsing the serialised form of k well-formed units returns the same identifiers, lengths and contents (copied) in the same order")
			},
		}})
	}
	return jobs
}

// pcoSubsetJob: UnMarshal on an arbitrary byte string (symbolic content and length), loop executed directly for up
// to maxUnits units. On a nil error the returned units, serialised per the layout, must be a prefix of data[1:]:
// every identifier, length and content octet comes from the input at its position.
func pcoSubsetJob(w *core.World) Job {
	ufn := w.Funcs["(*nasConvert.ProtocolConfigurationOptions).UnMarshal"]
	var data sym.Content
	var n *Term
	return Job{Fn: ufn, Spec: &sym.FnSpec{
		Args: func(fx *sym.FnExec, st *sym.State) []sym.Value {
			r, _ := pcoReceiver(fx, st, ufn.Params[0].Type(), 0)
			n = fx.Cx.Fresh("len(data)", BV(64))
			st.Assume(ULe(n, BVC(64, 1<<20)))
			data = sym.CSym{A: fx.Cx.Fresh("data", Arr(64, 8))}
			do := fx.Cx.NewObj("data", types.NewSlice(types.Typ[types.Uint8]), sym.ProvParam)
			st.Heap[do] = sym.ArrV{EW: 8, Len: n, C: data}
			return []sym.Value{r, sym.SliceV{Nil: False, Obj: do, Off: BVC(64, 0), Len: n, Cap: n}}
		},
		Post: func(fx *sym.FnExec, entry, exit *sym.State, args []sym.Value, ret sym.Value, ri int) {
			name := "(*nasConvert.ProtocolConfigurationOptions).UnMarshal#subset"
			if e, ok := ret.(sym.ErrV); ok && e.Code.IsConst() && e.Code.Val != 0 {
				return
			}
			isNil := Eq(ret.(sym.ErrV).Code, BVC(8, 0))
			r := args[0].(sym.PtrV)
			list := exit.Heap[r.Obj].(sym.StructV).F[0].(sym.SliceV)
			es, ok := exit.Heap[list.Obj].(sym.ArrS)
			if list.Obj == nil && list.Len.IsConst() && list.Len.Val == 0 {
				return
			}
			if !ok || !list.Len.IsConst() {
				fx.Oblige(exit, name, "post", Not(isNil), "", "result list not tracked on this path")
				return
			}
			var units []pcoUnit
			gs := []*Term{}
			for i := 0; i < int(list.Len.Val); i++ {
				p, ok := es.Elems[int(list.Off.Val)+i].(sym.PtrV)
				if !ok || p.Obj == nil {
					gs = append(gs, False)
					continue
				}
				u := exit.Heap[p.Obj].(sym.StructV)
				cs := u.F[2].(sym.SliceV)
				pu := pcoUnit{id: u.F[0].(sym.Scalar).T, ln: u.F[1].(sym.Scalar).T, contents: cs, carr: sym.CZero{W: 8}}
				gs = append(gs, Eq(cs.Len, ZExt(64, pu.ln)))
				if cs.Obj != nil {
					if _, existed := entry.Heap[cs.Obj]; existed {
						gs = append(gs, False)
					} else if cs.Off.IsConst() && cs.Off.Val == 0 {
						pu.carr = exit.Heap[cs.Obj].(sym.ArrV).C
					} else {
						gs = append(gs, False)
					}
				}
				units = append(units, pu)
			}
			pos := BVC(64, 1)
			sel := func(i *Term) *Term { return data.Elem(i) }
			for _, u := range units {
				gs = append(gs, Eq(u.id, Concat(sel(pos), sel(Add(pos, BVC(64, 1))))), Eq(u.ln, sel(Add(pos, BVC(64, 2)))))
				pos = Add(pos, BVC(64, 3))
				gs = append(gs, fx.EqContent(u.carr, BVC(64, 0), data, pos, ZExt(64, u.ln)))
				pos = Add(pos, ZExt(64, u.ln))
			}
			gs = append(gs, ULe(pos, n))
			fx.Oblige(exit, name, "post", Implies(isNil, And(gs...)), "", "every returned identifier, length and content octet is the input octet at its position (the units serialise to a prefix of data[1:])")
		},
	}}
}

// pcoMarshalStepJob: Marshal on a list of ANY length. The loop is cut at its invariant; at the first arrival at the
// loop head the buffer holds exactly the octet 0x80, and every iteration (checked at the back edge against the state
// at the head) appends identifier (2 octets, big-endian), length octet and contents of the unit it read and changes
// nothing else. The returned slice is the buffer. By induction over the iterations (paper step) the result is
// 0x80 followed by the units in order.
func pcoMarshalStepJob(w *core.World, base func(fn *ssa.Function, ord int) *sym.LoopSpec) (Job, func(fn *ssa.Function, ord int) *sym.LoopSpec) {
	mfn := w.Funcs["(*nasConvert.ProtocolConfigurationOptions).Marshal"]
	named := func(fr *sym.Frame, name string) sym.Value {
		for _, b := range mfn.Blocks {
			for _, in := range b.Instrs {
				if dr, ok := in.(*ssa.DebugRef); ok && !dr.IsAddr {
					if id, ok := dr.Expr.(*ast.Ident); ok && id.Name == name {
						if v, ok := fr.Env[dr.X]; ok {
							return v
						}
					}
				}
			}
		}
		return nil
	}
	bufData := func(fx *sym.FnExec, fr *sym.Frame, st *sym.State) (sym.Content, *Term, bool) {
		p, ok := named(fr, "buffer").(sym.PtrV)
		if !ok || p.Obj == nil {
			return nil, nil, false
		}
		sv, ok := st.Heap[p.Obj].(sym.StructV)
		if !ok {
			return nil, nil, false
		}
		data := sv.F[0].(sym.SliceV)
		if data.Obj == nil {
			return sym.CZero{W: 8}, data.Len, true
		}
		arr := st.Heap[data.Obj].(sym.ArrV)
		if !data.Off.IsConst() || data.Off.Val != 0 {
			return nil, nil, false
		}
		return arr.C, data.Len, true
	}
	name := "(*nasConvert.ProtocolConfigurationOptions).Marshal"
	loops := func(fn *ssa.Function, ord int) *sym.LoopSpec {
		ls := base(fn, ord)
		if fn != mfn || ord != 0 || ls == nil {
			return ls
		}
		ls.OnEntry = func(fx *sym.FnExec, fr *sym.Frame, st *sym.State) {
			c, n, ok := bufData(fx, fr, st)
			if !ok {
				fx.Oblige(st, name+"#entry.header", "inv.init", False, "", "buffer not found at the loop head")
				return
			}
			fx.Oblige(st, name+"#entry.header", "inv.init", And(Eq(n, BVC(64, 1)), Eq(c.Elem(BVC(64, 0)), BVC(8, 0x80))), "", "before the first unit the buffer holds exactly the configuration-protocol octet 0x80")
		}
		ls.OnBackEdge = func(fx *sym.FnExec, head *sym.State, headFr *sym.Frame, fr *sym.Frame, st *sym.State) {
			cH, nH, ok1 := bufData(fx, headFr, head)
			cS, nS, ok2 := bufData(fx, fr, st)
			up, ok3 := named(fr, "containerUnit").(sym.PtrV)
			if !ok1 || !ok2 || !ok3 || up.Obj == nil {
				fx.Oblige(st, name+"#step", "inv.preserve", False, "", "buffer or unit not found at the back edge")
				return
			}
			u := st.Heap[up.Obj].(sym.StructV)
			id, ln, cont := u.F[0].(sym.Scalar).T, u.F[1].(sym.Scalar).T, u.F[2].(sym.SliceV)
			var cc sym.Content = sym.CZero{W: 8}
			if cont.Obj != nil {
				cc = st.Heap[cont.Obj].(sym.ArrV).C
			}
			g := And(Eq(nS, Add(Add(nH, BVC(64, 3)), cont.Len)),
				fx.EqContent(cS, BVC(64, 0), cH, BVC(64, 0), nH),
				Eq(cS.Elem(nH), Extract(15, 8, id)), Eq(cS.Elem(Add(nH, BVC(64, 1))), Extract(7, 0, id)), Eq(cS.Elem(Add(nH, BVC(64, 2))), ln),
				fx.EqContent(cS, Add(nH, BVC(64, 3)), cc, cont.Off, cont.Len))
			fx.Oblige(st, name+"#step", "inv.preserve", g, "", "one iteration appends identifier (2 octets, big-endian), length octet and contents of the unit it read; octets written before are unchanged")
			// the unit and every other object that existed at the head (except the buffer) are unchanged
			bp := named(fr, "buffer").(sym.PtrV)
			var gs []*Term
			for o, v0 := range head.Heap {
				if o == bp.Obj {
					continue
				}
				if d, ok := head.Heap[bp.Obj].(sym.StructV); ok {
					if ds, ok := d.F[0].(sym.SliceV); ok && ds.Obj == o {
						continue
					}
				}
				if v1, ok := st.Heap[o]; ok {
					gs = append(gs, fx.EqV(v0, v1))
				}
			}
			fx.Oblige(st, name+"#step.frame", "frame", And(gs...), "", "an iteration modifies nothing but the buffer")
		}
		return ls
	}
	job := Job{Fn: mfn, Spec: &sym.FnSpec{Tag: "any number of units",
		Requires: func(fx *sym.FnExec, st *sym.State, args []sym.Value) {
			st.Assume(Not(args[0].(sym.PtrV).Nil))
		},
		Post: func(fx *sym.FnExec, entry, exit *sym.State, args []sym.Value, ret sym.Value, ri int) {
			// the result is the buffer's data
			rf := fx.RetFrame
			out := ret.(sym.SliceV)
			if rf == nil {
				fx.Oblige(exit, name+"#result", "post", False, "", "no return frame")
				return
			}
			c, n, ok := bufData(fx, rf, exit)
			if !ok || out.Obj == nil {
				fx.Oblige(exit, name+"#result", "post", False, "", "buffer not found at the return")
				return
			}
			fx.Oblige(exit, name+"#result", "post", And(Eq(out.Len, n), fx.EqContent(exit.Heap[out.Obj].(sym.ArrV).C, out.Off, c, BVC(64, 0), n)), "", "the returned octets are the buffer's contents")
		}}}
	return job, loops
}

// pcoUnmarshalStepJob: UnMarshal on ANY byte string, any number of units. The reader loop is cut at its invariant and
// one iteration is compared with the (arbitrary) state at the loop head: the reader still reads the caller's octets,
// which are unchanged; its position only moves forward and stays within the input; and every field of every unit
// that differs from its value at the head (or from the constructor's defaults, for a unit allocated in this
// iteration) holds exactly the input octets between the old and the new reader position (identifier: two octets,
// big-endian; length: one octet; contents: LengthOfContents octets in a fresh slice). The position moves only over
// octets that were stored. By induction over the iterations (paper step) every identifier, length and content octet
// of every returned unit is an input octet, in input order.
func pcoUnmarshalStepJob(w *core.World, base func(fn *ssa.Function, ord int) *sym.LoopSpec) (Job, func(fn *ssa.Function, ord int) *sym.LoopSpec) {
	ufn := w.Funcs["(*nasConvert.ProtocolConfigurationOptions).UnMarshal"]
	name := "(*nasConvert.ProtocolConfigurationOptions).UnMarshal"
	isUnit := func(o *sym.Object) bool {
		n, ok := o.Typ.(*types.Named)
		return ok && n.Obj().Name() == "ProtocolOrContainerUnit"
	}
	loops := func(fn *ssa.Function, ord int) *sym.LoopSpec {
		ls := base(fn, ord)
		if fn != ufn || ord != 0 || ls == nil {
			return ls
		}
		ls.OnEntry = func(fx *sym.FnExec, fr *sym.Frame, st *sym.State) {
			var g *Term = False
			for o, v := range st.Heap {
				if o.Name == "bytes.Reader" {
					r := v.(sym.StructV)
					g = And(Eq(r.F[1].(sym.Scalar).T, BVC(64, 1)), ULe(BVC(64, 1), r.F[0].(sym.SliceV).Len))
				}
			}
			fx.Oblige(st, name+"#entry.reader", "inv.init", g, "", "at the first arrival at the loop head exactly the configuration-protocol octet has been read and the read position is within the input")
		}
		ls.OnBackEdge = func(fx *sym.FnExec, head *sym.State, headFr *sym.Frame, fr *sym.Frame, st *sym.State) {
			fail := func(why string) {
				fx.Oblige(st, name+"#step.reader", "inv.preserve", False, "", why)
			}
			var rd *sym.Object
			for o := range st.Heap {
				if o.Name == "bytes.Reader" {
					if rd != nil {
						fail("more than one reader")
						return
					}
					rd = o
				}
			}
			if rd == nil {
				fail("reader not found at the back edge")
				return
			}
			r0, ok0 := head.Heap[rd].(sym.StructV)
			r1, ok1 := st.Heap[rd].(sym.StructV)
			if !ok0 || !ok1 {
				fail("reader not found at the loop head")
				return
			}
			d0, d1 := r0.F[0].(sym.SliceV), r1.F[0].(sym.SliceV)
			pH, pS := r0.F[1].(sym.Scalar).T, r1.F[1].(sym.Scalar).T
			var dc sym.Content = sym.CZero{W: 8}
			var same *Term = True
			if d1.Obj != nil {
				a1, ok := st.Heap[d1.Obj].(sym.ArrV)
				if !ok {
					fail("input octets not found")
					return
				}
				dc = a1.C
				if a0, ok := head.Heap[d1.Obj]; ok {
					same = fx.EqV(a0, a1)
				} else {
					same = False
				}
			}
			at := func(i *Term) *Term { return dc.Elem(Add(d1.Off, i)) }
			fx.Oblige(st, name+"#step.reader", "inv.preserve",
				Implies(ULe(pH, d0.Len), And(fx.EqV(d0, d1), same, ULe(pH, pS), ULe(pS, d1.Len))), "",
				"from a read position within the input, an iteration leaves the input octets and the reader's view of them unchanged and moves the position forward, still within the input")
			var gs, moved []*Term
			nunits := 0
			for o, v := range st.Heap {
				if !isUnit(o) {
					continue
				}
				nunits++
				u1 := v.(sym.StructV)
				id1, ln1, c1 := u1.F[0].(sym.Scalar).T, u1.F[1].(sym.Scalar).T, u1.F[2].(sym.SliceV)
				id0, ln0 := BVC(16, 0), BVC(8, 0)
				var keepC *Term = Eq(c1.Len, BVC(64, 0))
				if v0, ok := head.Heap[o].(sym.StructV); ok {
					id0, ln0 = v0.F[0].(sym.Scalar).T, v0.F[1].(sym.Scalar).T
					keepC = fx.EqV(v0.F[2], c1)
					if c0 := v0.F[2].(sym.SliceV); c0.Obj != nil && c0.Obj == c1.Obj {
						if a0, ok := head.Heap[c0.Obj]; ok {
							keepC = And(keepC, fx.EqV(a0, st.Heap[c1.Obj]))
						}
					}
				}
				var cc sym.Content = sym.CZero{W: 8}
				if c1.Obj != nil {
					if a, ok := st.Heap[c1.Obj].(sym.ArrV); ok {
						cc = a.C
					}
				}
				setID := And(Eq(pS, Add(pH, BVC(64, 2))), Eq(id1, Concat(at(pH), at(Add(pH, BVC(64, 1))))))
				setLn := And(Eq(pS, Add(pH, BVC(64, 1))), Eq(ln1, at(pH)))
				setC := And(Eq(c1.Len, Sub(pS, pH)), Eq(c1.Len, ZExt(64, ln1)), fx.EqContent(cc, c1.Off, dc, Add(d1.Off, pH), c1.Len))
				gs = append(gs, Or(Eq(id1, id0), setID), Or(Eq(ln1, ln0), setLn), Or(keepC, setC))
				moved = append(moved, setID, setLn, setC)
			}
			if nunits == 0 {
				fx.Oblige(st, name+"#step.units", "inv.preserve", False, "", "no unit object at the back edge")
				return
			}
			fx.Oblige(st, name+"#step.units", "inv.preserve", And(gs...), "",
				"every identifier, length and contents that an iteration sets holds exactly the input octets between the old and the new read position")
			fx.Oblige(st, name+"#step.consumed", "inv.preserve", Or(append([]*Term{Eq(pS, pH)}, moved...)...), "",
				"the read position moves only over octets that were stored in a unit")
		}
		return ls
	}
	job := Job{Fn: ufn, Spec: &sym.FnSpec{Tag: "any byte string: step relation of the reader loop",
		Requires: func(fx *sym.FnExec, st *sym.State, args []sym.Value) {
			st.Assume(Not(args[0].(sym.PtrV).Nil))
		}}}
	return job, loops
}

func c16(w *core.World, rep *core.Report) {
	std(rep)
	rep.Explain = "PDU session bitmaps: PSIToBooleanArray and PSIToBuf are proved to map bit i%8 of octet i/8 to entry i and back for all 2^16 bitmaps (16-iteration loops executed completely, one symbolic 16-bit state), so both round trips are identities; PDUSessionReactivationResultErrorCauseToBuf interleaves the two inputs (loop invariant with a quantifier over pairs). Protocol configuration options: UnMarshal is total and terminating for every byte string (safety contract with the three-state reader invariant and a weighted variant, as in C14); Marshal layout holds for lists of ANY length: at the first arrival at the loop head the buffer is exactly 0x80, every iteration appends identifier (big-endian), length octet and contents of the unit it read and changes nothing else (two-state step relation checked at the back edge from an arbitrary loop-head state), and the result is the buffer; the concatenation over all units follows by induction over the iterations (paper step). UnMarshal's contents-from-input statement holds per iteration for byte strings with ANY number of units: the read position starts at 1 within the input, every iteration keeps the input octets unchanged and the position within the input, and every identifier, length octet and contents it stores in a unit are exactly the input octets between the old and the new read position (two-state relation over the unit objects on the heap, checked at the back edge from an arbitrary loop-head state; induction over iterations on paper). In addition the complete layout and the Marshal/UnMarshal round trip are checked on lists of up to 3 / 2 units with symbolic identifiers, lengths 0..255 and contents."
	// Marshal/UnMarshal harnesses execute the reader loop directly (bounded number of units), without its cut-point
	base := w.Cx.Loops
	unroll := map[*ssa.Function]bool{}
	jobs := ContractJobs(w, rep, []string{"nasConvert.PSIToBooleanArray", "nasConvert.PSIToBuf", "nasConvert.PDUSessionReactivationResultErrorCauseToBuf"})
	jobs = append(jobs, SafetyJobs(w, rep, []string{"(*nasConvert.ProtocolConfigurationOptions).UnMarshal", "nasConvert.NewProtocolOrContainerUnit", "nasConvert.NewProtocolConfigurationOptions"})...)
	RunJobs(w, rep, jobs)
	// Marshal for lists of any length: entry / step / result obligations at the loop cut
	stepJob, stepLoops := pcoMarshalStepJob(w, base)
	w.Cx.Loops = stepLoops
	w.Cx.ElemsNonNil = true
	RunJobs(w, rep, []Job{stepJob})
	w.Cx.ElemsNonNil = false
	w.Cx.Loops = base
	// UnMarshal for any byte string: per-iteration relation between the units and the input octets
	ustepJob, ustepLoops := pcoUnmarshalStepJob(w, base)
	w.Cx.Loops = ustepLoops
	RunJobs(w, rep, []Job{ustepJob})
	w.Cx.Loops = base
	for _, k := range []string{"(*nasConvert.ProtocolConfigurationOptions).UnMarshal", "(*nasConvert.ProtocolConfigurationOptions).Marshal"} {
		if fn := w.Funcs[k]; fn != nil {
			unroll[fn] = true
		}
	}
	w.Cx.Loops = func(fn *ssa.Function, ord int) *sym.LoopSpec {
		if unroll[fn] {
			return nil
		}
		return base(fn, ord)
	}
	maxM, maxR, maxS := 3, 2, 3
	if rep.Tier == "thorough" {
		maxM, maxR, maxS = 4, 3, 4
	}
	w.Cx.MaxVisits = 3*maxR + 6
	RunJobs(w, rep, MarkBounded(pcoJobs(w, rep, maxM, maxR)))
	w.Cx.MaxVisits = 3*maxS + 2
	w.Cx.UnwindDrop = true
	RunJobs(w, rep, MarkBounded([]Job{pcoSubsetJob(w)}))
	w.Cx.UnwindDrop = false
	w.Cx.Loops = base
	rep.Bounded = append(rep.Bounded,
		core.Bounded{Function: "(*nasConvert.ProtocolConfigurationOptions).Marshal (complete output in one obligation)", Bound: fmt.Sprintf("lists of 0..%d units (identifiers, lengths, contents symbolic); the per-iteration step relation is unbounded", maxM)},
		core.Bounded{Function: "(*nasConvert.ProtocolConfigurationOptions).UnMarshal contents-from-input", Bound: fmt.Sprintf("arbitrary byte strings (symbolic octets, symbolic length up to 2^20) that parse into at most %d units; paths with more loop iterations are not explored by this harness (the per-iteration relation between the units and the input octets is unbounded)", maxS)},
		core.Bounded{Function: "(*nasConvert.ProtocolConfigurationOptions).UnMarshal round trip", Bound: fmt.Sprintf("serialised lists of 0..%d units; totality and termination of UnMarshal are unbounded", maxR)})
	rep.Floor = 60
	rep.AddUnique(&rep.Assumptions,
		"Marshal step relation: the units of the list are non-nil pointers (a nil unit makes Marshal panic; such a list is not well-formed) and the length octet is written as stored (LengthOfContents == len(Contents) is the caller's well-formedness condition)",
		fmt.Sprintf("'never yields contents that are not in the input': the returned list as a whole is checked for byte strings that parse into at most %d units (bounded harness); for more units the per-iteration relation (every stored field equals the input octets at the read position) is proved, and that the list only grows by appending the unit of the current iteration is not (the list is a slice of pointers whose content the engine does not track)", maxS))
}
