package props

import (
	"fmt"
	"go/types"
	"os"
	"sort"
	"strings"

	"golang.org/x/tools/go/ssa"

	"verif/engine/internal/core"
	. "verif/engine/internal/smt"
	"verif/engine/internal/sym"
)

func init() { Registry["C05"] = c05 }

// ---------------- derived contracts of the generated codecs, for use at call sites ----------------

type codecContract struct {
	c   *codecCtx
	dir string
}

func (cc *codecContract) Apply(fx *sym.FnExec, fr *sym.Frame, fn *ssa.Function, args []sym.Value, st *sym.State, site string, k func(*sym.State, sym.Value)) {
	c := cc.c
	a := args[0].(sym.PtrV)
	fx.Oblige(st, site+".pre[recv]", "pre", Not(a.Nil), "", "receiver of "+c.fname+" must not be nil")
	st.Assume(Not(a.Nil))
	p1 := args[1].(sym.PtrV)
	fx.Oblige(st, site+".pre[arg]", "pre", Not(p1.Nil), "", "argument of "+c.fname+" must not be nil")
	st.Assume(Not(p1.Nil))
	if st.Dead || a.Obj == nil || p1.Obj == nil {
		return
	}
	if cc.dir == "encode" {
		av := fx.Load(st, a, nil).(sym.StructV)
		segs, wf := c.encSegments(fx, st, av)
		fx.Oblige(st, site+".pre[wf]", "pre", wf, "", "array-backed elements of the message must have Len within their backing array (encoder precondition)")
		st.Assume(wf)
		for _, s := range segs {
			fx.BufAppend(st, p1, s.c, s.off, s.n)
		}
		k(st, sym.ErrV{Code: BVC(8, 0)})
		return
	}
	// decode: the receiver is overwritten; on success the leading fixed-size mandatory elements are the input octets
	in := fx.Load(st, p1, nil).(sym.SliceV)
	var data sym.Content = sym.CZero{W: 8}
	if in.Obj != nil {
		data = st.Heap[in.Obj].(sym.ArrV).C
	}
	nv := fx.SymValue(st, a.Obj.Typ, "decoded."+c.name, 1)
	if len(a.Path) > 0 {
		nv = fx.SymValue(st, typeAtPath(a.Obj.Typ, a.Path), "decoded."+c.name, 1)
	}
	fx.StoreTo(st, a, nv, site)
	errc := fx.Cx.Fresh("err."+c.name, BV(8))
	ok := Eq(errc, BVC(8, 0))
	sv := nv.(sym.StructV)
	off := uint64(0)
	for i, e := range c.tab.Elements {
		if !e.Mandatory || e.Format != "V" {
			break
		}
		r := c.reps[i]
		ev := sv.F[r.FieldIx].(sym.StructV)
		switch r.Kind {
		case "octet":
			st.Assume(Implies(ok, Eq(ev.F[r.Data].(sym.Scalar).T, data.Elem(Add(in.Off, BVC(64, off))))))
			off++
		case "array":
			arr := ev.F[r.Data].(sym.ArrV)
			for kx := 0; kx < r.N; kx++ {
				st.Assume(Implies(ok, Eq(arr.C.Elem(BVC(64, uint64(kx))), data.Elem(Add(in.Off, BVC(64, off))))))
				off++
			}
		}
	}
	st.Assume(Implies(ok, ULe(BVC(64, off), in.Len)))
	old, has := st.Ghost["alloc"]
	if !has {
		old = BVC(64, 0)
	}
	na := fx.Cx.Fresh("alloc", BV(64))
	st.Assume(And(ULe(old, na), ULe(na, Add(old, Add(Shl(in.Len, BVC(64, 7)), BVC(64, 512+2*65535+128))))))
	st.Ghost["alloc"] = na
	k(st, sym.ErrV{Code: errc})
}

func typeAtPath(t types.Type, p sym.Path) types.Type {
	for _, e := range p {
		switch u := t.Underlying().(type) {
		case *types.Struct:
			t = u.Field(e.Field).Type()
		case *types.Array:
			t = u.Elem()
		}
	}
	return t
}

// ---------------- dispatch specification ----------------

type famSpec struct {
	name    string // "Gmm" | "Gsm"
	epd     uint64
	hdrLen  int
	typeIdx int
	types   map[string]int // message struct name -> message type
	msgIdx  int            // index of *GmmMessage/*GsmMessage in nas.Message
	famT    *types.Struct
	bodies  map[string]int // message struct name -> field index in the family struct
	ctx     map[string]*codecCtx
}

func famSpecs(w *core.World, tabs *Tables, ctxs map[string]*codecCtx) ([]*famSpec, error) {
	fnD := w.Funcs["(*nas.Message).PlainNasDecode"]
	if fnD == nil {
		return nil, fmt.Errorf("PlainNasDecode not found")
	}
	msgT := fnD.Params[0].Type().(*types.Pointer).Elem().Underlying().(*types.Struct)
	var out []*famSpec
	for _, f := range []struct {
		n, key string
		epd    uint64
		hl, ti int
	}{{"Gmm", "GMM", 0x7e, 3, 2}, {"Gsm", "GSM", 0x2e, 4, 3}} {
		fs := &famSpec{name: f.n, epd: f.epd, hdrLen: f.hl, typeIdx: f.ti, types: tabs.Dispatch[f.key], bodies: map[string]int{}, ctx: ctxs, msgIdx: -1}
		for i := 0; i < msgT.NumFields(); i++ {
			if msgT.Field(i).Name() == f.n+"Message" {
				fs.msgIdx = i
				fs.famT = msgT.Field(i).Type().(*types.Pointer).Elem().Underlying().(*types.Struct)
			}
		}
		if fs.famT == nil {
			return nil, fmt.Errorf("nas.Message has no %sMessage field", f.n)
		}
		for i := 1; i < fs.famT.NumFields(); i++ {
			fs.bodies[fs.famT.Field(i).Name()] = i
		}
		// every dispatchable message has a body field and vice versa (except the security envelope)
		for n := range fs.types {
			if _, ok := fs.bodies[n]; !ok {
				return nil, fmt.Errorf("message %s of the dispatch table has no body field in %sMessage", n, f.n)
			}
		}
		out = append(out, fs)
	}
	return out, nil
}

func (fs *famSpec) sortedTypes() []string {
	var ns []string
	for n := range fs.types {
		ns = append(ns, n)
	}
	sort.Strings(ns)
	return ns
}

func (fs *famSpec) known(T *Term) *Term {
	var cs []*Term
	for _, n := range fs.sortedTypes() {
		cs = append(cs, Eq(T, BVC(8, uint64(fs.types[n]))))
	}
	return Or(cs...)
}

// decodePreds: postcondition of <Fam>MessageDecode as named goals over (entry, exit).
func (fs *famSpec) decodePreds(fx *sym.FnExec, entry, exit *sym.State, a, ba sym.PtrV, ret sym.Value) []sym.NamedTerm {
	in := entry.Heap[ba.Obj].(sym.SliceV)
	var data sym.Content = sym.CZero{W: 8}
	if in.Obj != nil {
		data = entry.Heap[in.Obj].(sym.ArrV).C
	}
	at := func(i int) *Term { return data.Elem(Add(in.Off, BVC(64, uint64(i)))) }
	n := in.Len
	isErr := Ne(ret.(sym.ErrV).Code, BVC(8, 0))
	long := ULe(BVC(64, uint64(fs.hdrLen)), n)
	T := at(fs.typeIdx)
	var out []sym.NamedTerm
	out = append(out, sym.NamedTerm{Name: "short", T: Implies(Not(long), isErr)})
	out = append(out, sym.NamedTerm{Name: "unknown-type", T: Implies(And(long, Not(fs.known(T))), isErr)})
	// success clauses
	msg := exit.Heap[a.Obj].(sym.StructV)
	fp := msg.F[fs.msgIdx].(sym.PtrV)
	if fp.Obj == nil {
		out = append(out, sym.NamedTerm{Name: "success", T: isErr})
		return out
	}
	_, existed := entry.Heap[fp.Obj]
	G := exit.Heap[fp.Obj].(sym.StructV)
	var cs []*Term
	cs = append(cs, long, Not(fp.Nil), BoolC(!existed))
	hdr := G.F[0].(sym.StructV).F[0].(sym.ArrV)
	for i := 0; i < fs.hdrLen; i++ {
		cs = append(cs, Eq(hdr.C.Elem(BVC(64, uint64(i))), at(i)))
	}
	out = append(out, sym.NamedTerm{Name: "success.header", T: Implies(Not(isErr), And(cs...))})
	for i := 1; i < len(G.F); i++ {
		name := fs.famT.Field(i).Name()
		bp := G.F[i].(sym.PtrV)
		ty, dispatchable := fs.types[name]
		if !dispatchable {
			out = append(out, sym.NamedTerm{Name: "body[" + name + "]", T: Implies(Not(isErr), bp.Nil)})
			continue
		}
		sel := Eq(T, BVC(8, uint64(ty)))
		g := Eq(Not(bp.Nil), sel) // populated exactly when named by the type octet
		if bp.Obj != nil {
			if bv, ok := exit.Heap[bp.Obj].(sym.StructV); ok {
				// the body's own header octets agree with the header view
				var hs []*Term
				k := 0
				for j := 0; j < len(bv.F) && k < fs.hdrLen; j++ {
					ev, ok := bv.F[j].(sym.StructV)
					if !ok || len(ev.F) != 1 {
						break
					}
					sc, ok := ev.F[0].(sym.Scalar)
					if !ok {
						break
					}
					hs = append(hs, Eq(sc.T, at(k)))
					k++
				}
				if k != fs.hdrLen {
					hs = append(hs, False)
				}
				g = And(g, Implies(sel, And(hs...)))
			}
		}
		out = append(out, sym.NamedTerm{Name: "body[" + name + "]", T: Implies(Not(isErr), g)})
	}
	return out
}

// famDecodeContract: contract of <Fam>MessageDecode for its callers (PlainNasDecode).
type famDecodeContract struct {
	fs    *famSpec
	fname string
}

func (fc *famDecodeContract) Apply(fx *sym.FnExec, fr *sym.Frame, fn *ssa.Function, args []sym.Value, st *sym.State, site string, k func(*sym.State, sym.Value)) {
	a := args[0].(sym.PtrV)
	ba := args[1].(sym.PtrV)
	fx.Oblige(st, site+".pre[recv]", "pre", Not(a.Nil), "", "receiver of "+fc.fname+" must not be nil")
	fx.Oblige(st, site+".pre[byteArray]", "pre", Not(ba.Nil), "", fc.fname+" requires byteArray != nil")
	st.Assume(And(Not(a.Nil), Not(ba.Nil)))
	if st.Dead || a.Obj == nil || ba.Obj == nil {
		return
	}
	pre := st.Clone()
	nv := fx.SymValue(st, a.Obj.Typ, "decoded", 1)
	// only the family pointer is written
	old := st.Heap[a.Obj].(sym.StructV)
	nf := append([]sym.Value(nil), old.F...)
	nf[fc.fs.msgIdx] = nv.(sym.StructV).F[fc.fs.msgIdx]
	st.Heap[a.Obj] = sym.StructV{F: nf}
	ret := sym.ErrV{Code: fx.Cx.Fresh("err."+fc.fs.name, BV(8))}
	st.Ghost["alloc"] = fx.Cx.Fresh("alloc", BV(64))
	for _, g := range fc.fs.decodePreds(fx, pre, st, a, ba, ret) {
		if g.Name == "success.header" {
			// freshness is by construction here
			st.Assume(g.T)
			continue
		}
		st.Assume(g.T)
	}
	k(st, ret)
}

func c05(w *core.World, rep *core.Report) {
	std(rep)
	jobs := dispatchJobs(w, rep)
	if only := os.Getenv("C05_ONLY"); only != "" {
		var sel []Job
		for _, j := range jobs {
			if strings.Contains(j.Fn.String(), only) {
				sel = append(sel, j)
			}
		}
		jobs = sel
	}
	RunJobs(w, rep, jobs)
	rep.Floor = 300
	rep.AddUnique(&rep.Assumptions,
		"the generated codecs are used through contracts derived from spec/messages.json whose validity on the real code is C04's obligations (checked separately on the same tree)",
		"the two family decoders and encoders require non-nil pointers (a nil *[]byte is not a byte string; the nil guard is PlainNasDecode's / PlainNasEncode's)")
}

// dispatchJobs: verification jobs of the six dispatch functions (and the two header peek helpers).
func dispatchJobs(w *core.World, rep *core.Report) []Job {
	rep.Explain += "Postconditions of the six dispatch functions over the dispatch table: short/nil/empty input and unknown discriminator or message type give an error; a successful decode allocates a fresh family message, copies the header octets, populates exactly the body named by the type octet (iff per body pointer over all 256 type values) and that body's own header octets equal the header view (through the decoders' derived contracts, C04); encoding dispatches on the header's type octet to the encoder of that body and appends exactly ENC_T(body), unknown type or absent body is an error. The generated codecs are used through contracts derived from the message tables, not inlined."
	tabs, err := LoadTables()
	if err != nil {
		rep.Broken = err.Error()
		return nil
	}
	ctxs := map[string]*codecCtx{}
	for _, dir := range []string{"decode", "encode"} {
		for _, k := range codecKeys(w, dir) {
			fc := w.Contracts.ByKey[k]
			c, err := newCodecCtx(w, tabs, fc)
			if err != nil {
				rep.Outcomes = append(rep.Outcomes, core.Outcome{Name: k + "#binding", Kind: "lemma", Fn: k, Status: "failed", Backend: "syntactic", Info: err.Error(), Members: 1})
				continue
			}
			w.Cx.Contracts[fc.Fn.String()] = &codecContract{c: c, dir: dir}
			if dir == "decode" {
				ctxs[c.name] = c
			}
		}
	}
	fams, err := famSpecs(w, tabs, ctxs)
	if err != nil {
		rep.Outcomes = append(rep.Outcomes, core.Outcome{Name: "nas.dispatch#binding", Kind: "lemma", Fn: "nas", Status: "failed", Backend: "syntactic", Info: err.Error(), Members: 1})
		return nil
	}
	var jobs []Job
	mustFn := func(k string) *ssa.Function {
		fn := w.Funcs[k]
		if fn == nil {
			rep.Aborted[k] = "contract-binding: function not found"
		}
		return fn
	}
	// --- family decoders ---
	for _, fs := range fams {
		fs := fs
		key := fmt.Sprintf("(*nas.Message).%sMessageDecode", fs.name)
		fn := mustFn(key)
		if fn == nil {
			continue
		}
		jobs = append(jobs, Job{Fn: fn, Spec: &sym.FnSpec{
			Requires: func(fx *sym.FnExec, st *sym.State, args []sym.Value) {
				st.Assume(Not(args[0].(sym.PtrV).Nil))
				st.Assume(Not(args[1].(sym.PtrV).Nil))
			},
			Post: func(fx *sym.FnExec, entry, exit *sym.State, args []sym.Value, ret sym.Value, ri int) {
				for _, g := range fs.decodePreds(fx, entry, exit, args[0].(sym.PtrV), args[1].(sym.PtrV), ret) {
					fx.Oblige(exit, key+"#post["+g.Name+"]", "post", g.T, "", "dispatch on the message-type octet is exact")
				}
				// nothing but the family pointer of the message is written; input untouched
				var gs []*Term
				for o, v0 := range entry.Heap {
					v1, ok := exit.Heap[o]
					if !ok {
						continue
					}
					if o == args[0].(sym.PtrV).Obj {
						a0, a1 := v0.(sym.StructV), v1.(sym.StructV)
						for i := range a0.F {
							if i != fs.msgIdx {
								gs = append(gs, fx.EqV(a0.F[i], a1.F[i]))
							}
						}
						continue
					}
					gs = append(gs, fx.EqV(v0, v1))
				}
				fx.Oblige(exit, key+"#frame", "frame", And(gs...), "", "only the family message pointer is written")
			},
		}})
		w.Cx.Contracts[fn.String()] = &famDecodeContract{fs: fs, fname: key}
	}
	// --- PlainNasDecode ---
	if fn := mustFn("(*nas.Message).PlainNasDecode"); fn != nil {
		key := "(*nas.Message).PlainNasDecode"
		jobs = append(jobs, Job{Fn: fn, Spec: &sym.FnSpec{
			Requires: func(fx *sym.FnExec, st *sym.State, args []sym.Value) {
				st.Assume(Not(args[0].(sym.PtrV).Nil))
			},
			Post: func(fx *sym.FnExec, entry, exit *sym.State, args []sym.Value, ret sym.Value, ri int) {
				a := args[0].(sym.PtrV)
				ba := args[1].(sym.PtrV)
				isErr := Ne(ret.(sym.ErrV).Code, BVC(8, 0))
				in := entry.Heap[ba.Obj].(sym.SliceV)
				empty := Or(ba.Nil, Eq(in.Len, BVC(64, 0)))
				fx.Oblige(exit, key+"#post[nil-or-empty]", "post", Implies(empty, isErr), "", "nil and empty input are rejected")
				var data sym.Content = sym.CZero{W: 8}
				if in.Obj != nil {
					data = entry.Heap[in.Obj].(sym.ArrV).C
				}
				epd := data.Elem(in.Off)
				other := True
				for _, fs := range fams {
					sel := And(Not(empty), Eq(epd, BVC(8, fs.epd)))
					other = And(other, Ne(epd, BVC(8, fs.epd)))
					for _, g := range fs.decodePreds(fx, entry, exit, a, ba, ret) {
						fx.Oblige(exit, key+"#post["+fs.name+"."+g.Name+"]", "post", Implies(sel, g.T), "", "discriminator routes to the family decoder, whose postcondition holds")
					}
				}
				fx.Oblige(exit, key+"#post[other-epd]", "post", Implies(And(Not(empty), other), And(isErr, fx.EqV(entry.Heap[a.Obj], exit.Heap[a.Obj]))), "", "any other discriminator is an error and leaves the message untouched")
			},
		}})
	}
	// --- encoders ---
	for _, fs := range fams {
		fs := fs
		key := fmt.Sprintf("(*nas.Message).%sMessageEncode", fs.name)
		fn := mustFn(key)
		if fn == nil {
			continue
		}
		jobs = append(jobs, Job{Fn: fn, Spec: fs.encodeSpec(w, tabs, key, false)})
	}
	if fn := mustFn("(*nas.Message).PlainNasEncode"); fn != nil {
		jobs = append(jobs, Job{Fn: fn, Spec: plainEncodeSpec(w, tabs, fams)})
	}
	for _, k := range []string{"nas.GetEPD", "nas.GetSecurityHeaderType"} {
		jobs = append(jobs, ContractJobs(w, rep, []string{k})...)
	}
	return jobs
}

// encodeSpec: <Fam>MessageEncode(buffer): dispatch on the header's type octet.
func (fs *famSpec) encodeSpec(w *core.World, tabs *Tables, key string, plain bool) *sym.FnSpec {
	encCtx := map[string]*codecCtx{}
	for _, k := range codecKeys(w, "encode") {
		fc := w.Contracts.ByKey[k]
		if c, err := newCodecCtx(w, tabs, fc); err == nil {
			encCtx[c.name] = c
		}
	}
	return &sym.FnSpec{
		Requires: func(fx *sym.FnExec, st *sym.State, args []sym.Value) {
			a := args[0].(sym.PtrV)
			b := args[1].(sym.PtrV)
			st.Assume(And(Not(a.Nil), Not(b.Nil)))
			msg := st.Heap[a.Obj].(sym.StructV)
			fp := msg.F[fs.msgIdx].(sym.PtrV)
			st.Assume(Not(fp.Nil))
			bs := st.Heap[b.Obj].(sym.StructV)
			st.Assume(And(SLe(BVC(64, 0), bs.F[1].(sym.Scalar).T), SLe(bs.F[1].(sym.Scalar).T, bs.F[0].(sym.SliceV).Len)))
			// representation well-formedness of present bodies (encoder precondition)
			G := st.Heap[fp.Obj].(sym.StructV)
			for n, i := range fs.bodies {
				c := encCtx[n]
				bp := G.F[i].(sym.PtrV)
				if c == nil || bp.Obj == nil {
					continue
				}
				_, wf := c.encSegments(fx, st, st.Heap[bp.Obj].(sym.StructV))
				st.Assume(Implies(Not(bp.Nil), wf))
			}
		},
		Post: func(fx *sym.FnExec, entry, exit *sym.State, args []sym.Value, ret sym.Value, ri int) {
			a := args[0].(sym.PtrV)
			b := args[1].(sym.PtrV)
			isErr := Ne(ret.(sym.ErrV).Code, BVC(8, 0))
			msg := entry.Heap[a.Obj].(sym.StructV)
			fp := msg.F[fs.msgIdx].(sym.PtrV)
			G := entry.Heap[fp.Obj].(sym.StructV)
			hdr := G.F[0].(sym.StructV).F[0].(sym.ArrV)
			T := hdr.C.Elem(BVC(64, uint64(fs.typeIdx)))
			fx.Oblige(exit, key+"#post[unknown-type]", "post", Implies(Not(fs.known(T)), isErr), "", "unknown message type is an error")
			bs0 := entry.Heap[b.Obj].(sym.StructV)
			buf0 := bs0.F[0].(sym.SliceV)
			bs1 := exit.Heap[b.Obj].(sym.StructV)
			buf1 := bs1.F[0].(sym.SliceV)
			var got sym.Content = sym.CZero{W: 8}
			if buf1.Obj != nil {
				got = exit.Heap[buf1.Obj].(sym.ArrV).C
			}
			for _, n := range fs.sortedTypes() {
				c := encCtx[n]
				bp := G.F[fs.bodies[n]].(sym.PtrV)
				sel := Eq(T, BVC(8, uint64(fs.types[n])))
				if c == nil || bp.Obj == nil {
					continue
				}
				segs, _ := c.encSegments(fx, entry, entry.Heap[bp.Obj].(sym.StructV))
				var base sym.Content = sym.CZero{W: 8}
				if buf0.Obj != nil {
					base = entry.Heap[buf0.Obj].(sym.ArrV).C
				}
				ln := buf0.Len
				exp := base
				for _, s := range segs {
					exp = sym.CopyC(exp, ln, s.c, s.off, s.n)
					ln = Add(ln, s.n)
				}
				goal := And(Not(isErr), Eq(buf1.Len, ln), fx.EqContent(got, buf1.Off, exp, BVC(64, 0), ln))
				fx.Oblige(exit, key+"#post[encode."+n+"]", "post", Implies(And(sel, Not(bp.Nil)), goal), "", "the type octet selects the encoder of the body it names; exactly ENC_T(body) is appended")
				fx.Oblige(exit, key+"#post[nobody."+n+"]", "post", Implies(And(sel, bp.Nil), isErr), "", "a message whose named body is absent is an error")
			}
			var gs []*Term
			for o, v0 := range entry.Heap {
				if o == b.Obj {
					continue
				}
				if v1, ok := exit.Heap[o]; ok {
					gs = append(gs, fx.EqV(v0, v1))
				}
			}
			fx.Oblige(exit, key+"#frame", "frame", And(gs...), "", "encoding does not modify the message")
		},
	}
}

func plainEncodeSpec(w *core.World, tabs *Tables, fams []*famSpec) *sym.FnSpec {
	key := "(*nas.Message).PlainNasEncode"
	encCtx := map[string]*codecCtx{}
	for _, k := range codecKeys(w, "encode") {
		fc := w.Contracts.ByKey[k]
		if c, err := newCodecCtx(w, tabs, fc); err == nil {
			encCtx[c.name] = c
		}
	}
	return &sym.FnSpec{
		Requires: func(fx *sym.FnExec, st *sym.State, args []sym.Value) {
			a := args[0].(sym.PtrV)
			st.Assume(Not(a.Nil))
			msg := st.Heap[a.Obj].(sym.StructV)
			for _, fs := range fams {
				fp := msg.F[fs.msgIdx].(sym.PtrV)
				if fp.Obj == nil {
					continue
				}
				G := st.Heap[fp.Obj].(sym.StructV)
				for n, i := range fs.bodies {
					c := encCtx[n]
					bp := G.F[i].(sym.PtrV)
					if c == nil || bp.Obj == nil {
						continue
					}
					_, wf := c.encSegments(fx, st, st.Heap[bp.Obj].(sym.StructV))
					st.Assume(Implies(And(Not(fp.Nil), Not(bp.Nil)), wf))
				}
			}
		},
		Post: func(fx *sym.FnExec, entry, exit *sym.State, args []sym.Value, ret sym.Value, ri int) {
			a := args[0].(sym.PtrV)
			tv := ret.(sym.TupleV)
			res := tv.V[0].(sym.SliceV)
			isErr := Ne(tv.V[1].(sym.ErrV).Code, BVC(8, 0))
			msg := entry.Heap[a.Obj].(sym.StructV)
			gm := msg.F[fams[0].msgIdx].(sym.PtrV)
			sm := msg.F[fams[1].msgIdx].(sym.PtrV)
			fx.Oblige(exit, key+"#post[no-body]", "post", Implies(And(gm.Nil, sm.Nil), And(isErr, res.Nil)), "", "a message with neither family is an error")
			var got sym.Content = sym.CZero{W: 8}
			if res.Obj != nil {
				got = exit.Heap[res.Obj].(sym.ArrV).C
				if _, existed := entry.Heap[res.Obj]; existed {
					fx.Oblige(exit, key+"#post[fresh]", "post", False, "", "the returned octets are freshly allocated")
				}
			}
			for fi, fs := range fams {
				fp := msg.F[fs.msgIdx].(sym.PtrV)
				if fp.Obj == nil {
					continue
				}
				use := Not(fp.Nil)
				if fi == 1 {
					use = And(gm.Nil, Not(fp.Nil))
				}
				G := entry.Heap[fp.Obj].(sym.StructV)
				hdr := G.F[0].(sym.StructV).F[0].(sym.ArrV)
				T := hdr.C.Elem(BVC(64, uint64(fs.typeIdx)))
				fx.Oblige(exit, fmt.Sprintf("%s#post[%s.unknown-type]", key, fs.name), "post", Implies(And(use, Not(fs.known(T))), isErr), "", "unknown message type is an error")
				for _, n := range fs.sortedTypes() {
					c := encCtx[n]
					bp := G.F[fs.bodies[n]].(sym.PtrV)
					if c == nil || bp.Obj == nil {
						continue
					}
					sel := And(use, Eq(T, BVC(8, uint64(fs.types[n]))))
					segs, _ := c.encSegments(fx, entry, entry.Heap[bp.Obj].(sym.StructV))
					var exp sym.Content = sym.CZero{W: 8}
					ln := BVC(64, 0)
					for _, s := range segs {
						exp = sym.CopyC(exp, ln, s.c, s.off, s.n)
						ln = Add(ln, s.n)
					}
					goal := And(Not(isErr), Eq(res.Len, ln), fx.EqContent(got, res.Off, exp, BVC(64, 0), ln))
					fx.Oblige(exit, fmt.Sprintf("%s#post[encode.%s]", key, n), "post", Implies(And(sel, Not(bp.Nil)), goal), "", "the result is exactly ENC_T of the body named by the header's type octet")
					fx.Oblige(exit, fmt.Sprintf("%s#post[nobody.%s]", key, n), "post", Implies(And(sel, bp.Nil), isErr), "", "a message whose named body is absent is an error")
				}
			}
			var gs []*Term
			for o, v0 := range entry.Heap {
				if v1, ok := exit.Heap[o]; ok {
					gs = append(gs, fx.EqV(v0, v1))
				}
			}
			fx.Oblige(exit, key+"#frame", "frame", And(gs...), "", "encoding does not modify the message")
		},
	}
}
