package props

import (
	"time"

	"verif/engine/internal/core"
)

func init() { Registry["C12"] = c12 }

var c12Contracts = []string{
	// AMF identifier, PLMN, 5G-GUTI: both directions plus round-trip lemmas
	"nasConvert.AmfIdToModels", "nasConvert.AmfIdToNasWithError", "nasConvert.AmfIdToNas",
	"nasConvert.PlmnIDToString", "nasConvert.PlmnIDToNas",
	"nasConvert.GutiToStringWithError", "nasConvert.GutiToNasWithError",
	"nasConvert.verifLemmaAmfIdRoundTrip", "nasConvert.verifLemmaAmfIdTextRoundTrip",
	"nasConvert.verifLemmaPlmnTextRoundTrip", "nasConvert.verifLemmaPlmnWireRoundTrip",
	"nasConvert.verifLemmaGutiWireRoundTrip", "nasConvert.verifLemmaGutiTextRoundTrip",
	// wire to text only
	"nasConvert.PeiToStringWithError", "nasConvert.SuciToStringWithError",
	"(*nasType.MobileIdentity5GS).GetSUCI", "nasType.naiToString", "nasType.peiToString",
	"(*nasType.MobileIdentity5GS).GetMCC", "(*nasType.MobileIdentity5GS).GetMNC", "(*nasType.MobileIdentity5GS).GetPlmnID",
	"(*nasType.MobileIdentity5GS).GetAmfID", "(*nasType.MobileIdentity5GS).GetAmfRegionID",
	"(*nasType.MobileIdentity5GS).GetAmfSetID", "(*nasType.MobileIdentity5GS).GetAmfPointer",
	"(*nasType.MobileIdentity5GS).Get5GTMSI", "(*nasType.MobileIdentity5GS).Get5GGUTI", "(*nasType.MobileIdentity5GS).Get5GSTMSI",
	"(*nasType.MobileIdentity5GS).GetIMEI", "(*nasType.MobileIdentity5GS).GetIMEISV",
}

// wrappers and dispatchers: safety only (their callees carry the functional contracts)
var c12Safety = []string{
	"nasConvert.SuciToString", "nasConvert.NaiToString", "nasConvert.naiToString",
	"nasConvert.GutiToString", "nasConvert.GutiToNas", "nasConvert.PeiToString", "nasConvert.GetTypeOfIdentity",
	"(*nasType.MobileIdentity5GS).GetTypeOfIdentity", "(*nasType.MobileIdentity5GS).GetMobileIdentity",
}

func c12(w *core.World, rep *core.Report) {
	std(rep)
	rep.Explain = "Every converter between identity octets and text carries a contract that states the text character by character (or the octets bit field by bit field) as defined by TS 23.003 / TS 24.501 9.11.3.4: BCD digit order and filler handling for MCC/MNC, MSIN, routing indicator and IMEI/IMEISV digits (unbounded lengths, quantified loop invariants), AMF identifier split 8/10/6, lower-case hexadecimal for AMF id and 5G-TMSI, decimal for the AMF set id and pointer getters, and the SUCI text with all five variable-length fields. Text-to-wire converters are verified once per legal text length with that length concrete (lencase) and once for all other lengths (must return an error). Round trips are lemma functions (verif_lemmas.go, build tag verif) composing two converters; they are verified modularly against the converters' contracts: AMF id (all 2^24), PLMN (all valid 2- and 3-digit MNC), 5G-GUTI both ways."
	QuickTimeout = 40 * time.Second // the SUCI scheme-output clauses take up to 8 s alone; leave room under load
	jobs := ContractJobs(w, rep, c12Contracts)
	jobs = append(jobs, SafetyJobs(w, rep, c12Safety)...)
	RunJobs(w, rep, jobs)
	rep.Floor = 300
	rep.AddUnique(&rep.Assumptions,
		"trusted stdlib models: hex.EncodeToString / hex.DecodeString (exact for strings of concrete length), strconv.Atoi on one-character strings, strconv.FormatUint for values below 2^16, fmt.Sprintf(\"%x\"/\"%d\") of one octet, strings.Index / strings.Join, bits.RotateLeft8",
		"text-to-wire converters take no SUCI/PEI text in this library; only the wire-to-text direction exists for them and is what is proved",
		"the 10-bit/6-bit AMF accessors of nasType.GUTI5G / TMSI5GS are decided by C09",
		"GutiToNasWithError accepts upper-case hexadecimal digits in the AMF id / TMSI part (as encoding/hex does); the text round trip is stated for lower-case text")
}
