package props

import (
	"fmt"
	"go/types"

	"golang.org/x/tools/go/ssa"

	"verif/engine/internal/core"
	. "verif/engine/internal/smt"
	"verif/engine/internal/sym"
)

func init() { Registry["C17"] = c17 }

func explicitStr(chars []*Term) sym.StrV {
	return sym.StrV{C: sym.CVec{E: chars, W: 8}, Off: BVC(64, 0), Len: BVC(64, uint64(len(chars)))}
}

func litChars(s string) []*Term {
	var out []*Term
	for i := 0; i < len(s); i++ {
		out = append(out, BVC(8, uint64(s[i])))
	}
	return out
}

// specCall evaluates a spec function fully (no uninterpreted parts).
func specCall(w *core.World, fx *sym.FnExec, st *sym.State, name string, args ...sym.Value) sym.Value {
	fn := w.Contracts.Specs[name]
	if fn == nil {
		panic(sym.Unsupported{Msg: "spec function " + name + " not found"})
	}
	return fx.EvalPure(fn, args, st, 999, nil)
}

// ---- time zone strings: sign H1 H2 ':' M1 M2 [ '+' D ] ----
func tzJobs(w *core.World, rep *core.Report) []Job {
	fn := w.Funcs["nasConvert.parseTimeZoneToNas"]
	if fn == nil {
		rep.Aborted["nasConvert.parseTimeZoneToNas"] = "contract-binding: function not found"
		return nil
	}
	var jobs []Job
	for _, mm := range []struct {
		s string
		q uint64
	}{{"00", 0}, {"15", 1}, {"30", 2}, {"45", 3}} {
		for dst := 0; dst <= 2; dst++ {
			mm, dst := mm, dst
			type inT struct{ neg, h1, h2 *Term }
			var in inT
			jobs = append(jobs, Job{Fn: fn, Spec: &sym.FnSpec{
				Args: func(fx *sym.FnExec, st *sym.State) []sym.Value {
					in.neg = fx.Cx.Fresh("neg", Bool)
					in.h1 = fx.Cx.Fresh("h1", BV(8))
					in.h2 = fx.Cx.Fresh("h2", BV(8))
					st.Assume(ULe(in.h1, BVC(8, 1)))
					st.Assume(ULe(in.h2, BVC(8, 9)))
					chars := []*Term{Ite(in.neg, BVC(8, '-'), BVC(8, '+')), Add(in.h1, BVC(8, '0')), Add(in.h2, BVC(8, '0')), BVC(8, ':')}
					chars = append(chars, litChars(mm.s)...)
					if dst > 0 {
						chars = append(chars, BVC(8, '+'), BVC(8, uint64('0'+dst)))
					}
					return []sym.Value{explicitStr(chars)}
				},
				Post: func(fx *sym.FnExec, entry, exit *sym.State, args []sym.Value, ret sym.Value, ri int) {
					// signed quarters of the zone plus the adjustment
					q := Add(Mul(Add(Mul(ZExt(64, in.h1), BVC(64, 10)), ZExt(64, in.h2)), BVC(64, 4)), BVC(64, mm.q))
					sq := Ite(in.neg, Neg(q), q)
					tot := Add(sq, BVC(64, uint64(4*dst)))
					representable := And(SLe(BVC(64, uint64(^uint64(0)-79+1)), tot), SLe(tot, BVC(64, 79)))
					oct := Extract(7, 0, ret.(sym.Scalar).T)
					dec := specCall(w, fx, exit, "TimeZoneSeconds", sym.Scalar{T: oct}).(sym.Scalar).T
					name := fmt.Sprintf("nasConvert.parseTimeZoneToNas#post[mm=%s,dst=%d]", mm.s, dst)
					fx.Oblige(exit, name, "post", Implies(representable, Eq(dec, Mul(tot, BVC(64, 900)))), "", "the octet decodes (TS 24.008 10.5.3.8) to zone offset plus daylight saving adjustment, for every sign and hour 00..19 whose total lies within +-79 quarters")
					fx.Oblige(exit, name+".range", "post", Implies(representable, ULe(ret.(sym.Scalar).T, BVC(64, 255))), "", "result fits one octet")
				},
			}})
		}
	}
	return jobs
}

// ---- session AMBR: "<digits> <unit>" ----
func ambrJobs(w *core.World, rep *core.Report) []Job {
	fn := w.Funcs["nasConvert.ModelsToSessionAMBR"]
	if fn == nil {
		rep.Aborted["nasConvert.ModelsToSessionAMBR"] = "contract-binding: function not found"
		return nil
	}
	units := []struct {
		s    string
		code uint64
	}{{"Kbps", 1}, {"Mbps", 6}, {"Gbps", 11}, {"Tbps", 16}, {"Pbps", 21}}
	var jobs []Job
	for k := 1; k <= 5; k++ {
		for ui, u := range units {
			for _, down := range []bool{false, true} {
				k, u, down := k, u, down
				other := units[(ui+2)%5]
				var val *Term
				jobs = append(jobs, Job{Fn: fn, Spec: &sym.FnSpec{
					Args: func(fx *sym.FnExec, st *sym.State) []sym.Value {
						mk := func(nd int, unit string, tag string) (sym.StrV, *Term) {
							var chars []*Term
							v := BVC(64, 0)
							for i := 0; i < nd; i++ {
								d := fx.Cx.Fresh(fmt.Sprintf("%s.d%d", tag, i), BV(8))
								st.Assume(ULe(d, BVC(8, 9)))
								c := Add(d, BVC(8, '0'))
								st.Assume(Ne(c, BVC(8, ' ')))
								chars = append(chars, c)
								v = Add(Mul(v, BVC(64, 10)), ZExt(64, d))
							}
							chars = append(chars, BVC(8, ' '))
							chars = append(chars, litChars(unit)...)
							return explicitStr(chars), v
						}
						var up, dn sym.StrV
						var v2 *Term
						if down {
							up, v2 = mk(3, other.s, "o")
							dn, val = mk(k, u.s, "v")
						} else {
							up, val = mk(k, u.s, "v")
							dn, v2 = mk(3, other.s, "o")
						}
						_ = v2
						st.Assume(ULe(val, BVC(64, 65535)))
						at := fn.Params[0].Type().(*types.Pointer).Elem()
						o := fx.Cx.NewObj("ambr", at, sym.ProvParam)
						st.Heap[o] = sym.StructV{F: []sym.Value{up, dn}}
						return []sym.Value{sym.PtrV{Nil: False, Obj: o}}
					},
					Post: func(fx *sym.FnExec, entry, exit *sym.State, args []sym.Value, ret sym.Value, ri int) {
						// SessionAMBR: Iei, Len, Octet[6] = unitDL, DL(2), unitUL, UL(2)
						sv := ret.(sym.StructV)
						var oct sym.ArrV
						for _, f := range sv.F {
							if a, ok := f.(sym.ArrV); ok {
								oct = a
							}
						}
						base := 3
						if down {
							base = 0
						}
						e := func(i int) *Term { return oct.C.Elem(BVC(64, uint64(i))) }
						name := fmt.Sprintf("nasConvert.ModelsToSessionAMBR#post[%s,%d digits,%s]", map[bool]string{false: "uplink", true: "downlink"}[down], k, u.s)
						fx.Oblige(exit, name, "post", And(Eq(e(base), BVC(8, u.code)), Eq(Concat(e(base+1), e(base+2)), Extract(15, 0, val))), "", "unit octet is the Table 9.11.4.14.1 code and the two value octets are the 16-bit value, big-endian")
					},
				}})
			}
		}
	}
	return jobs
}

// ---- network names: bounded in the name length (0..64, the property's own quantifier) ----
func nameJobs(w *core.World, rep *core.Report, maxN int) []Job {
	var jobs []Job
	for _, fname := range []string{"nasConvert.FullNetworkNameToNas", "nasConvert.ShortNetworkNameToNas"} {
		fn := w.Funcs[fname]
		if fn == nil {
			rep.Aborted[fname] = "contract-binding: function not found"
			continue
		}
		for n := 0; n <= maxN; n++ {
			n, fname, fn := n, fname, fn
			var chars []*Term
			jobs = append(jobs, Job{Fn: fn, Spec: &sym.FnSpec{
				Args: func(fx *sym.FnExec, st *sym.State) []sym.Value {
					chars = nil
					for i := 0; i < n; i++ {
						c := fx.Cx.Fresh(fmt.Sprintf("c%d", i), BV(8))
						st.Assume(ULe(c, BVC(8, 0x7f)))
						chars = append(chars, c)
					}
					return []sym.Value{explicitStr(chars)}
				},
				Post: func(fx *sym.FnExec, entry, exit *sym.State, args []sym.Value, ret sym.Value, ri int) {
					sv := ret.(sym.StructV) // Iei, Len, Buffer
					var buf sym.SliceV
					var ln *Term
					st := fn.Signature.Results().At(0).Type().Underlying().(*types.Struct)
					for i := 0; i < st.NumFields(); i++ {
						switch st.Field(i).Name() {
						case "Buffer":
							buf = sv.F[i].(sym.SliceV)
						case "Len":
							ln = sv.F[i].(sym.Scalar).T
						}
					}
					octs := (7*n + 7) / 8
					spare := (8 - (7*n)%8) % 8
					name := fmt.Sprintf("%s#post[n=%d]", fname, n)
					var gs []*Term
					gs = append(gs, Eq(ln, BVC(ln.S.W, uint64(1+octs))), Eq(buf.Len, BVC(64, uint64(1+octs))))
					if buf.Obj == nil {
						fx.Oblige(exit, name, "post", False, "", "no text string")
						return
					}
					arr := exit.Heap[buf.Obj].(sym.ArrV)
					first := arr.C.Elem(buf.Off)
					gs = append(gs, Eq(first, BVC(8, uint64(0x80|spare))))
					text := sym.SliceV{Nil: False, Obj: buf.Obj, Path: buf.Path, Off: Add(buf.Off, BVC(64, 1)), Len: BVC(64, uint64(octs)), Cap: BVC(64, uint64(octs))}
					for t := 0; t < n; t++ {
						sp := specCall(w, fx, exit, "Septet", text, sym.Scalar{T: BVC(64, uint64(t))}).(sym.Scalar).T
						gs = append(gs, Eq(sp, chars[t]))
					}
					// spare bits of the last octet are zero
					if spare > 0 && octs > 0 {
						last := arr.C.Elem(Add(buf.Off, BVC(64, uint64(octs))))
						gs = append(gs, Eq(LShr(last, BVC(8, uint64(8-spare))), BVC(8, 0)))
					}
					fx.Oblige(exit, name, "post", And(gs...), "", "length, coding octet (ext=1, GSM default alphabet, spare-bit count), every septet unpacks to the character, spare bits zero")
				},
			}})
		}
	}
	return jobs
}

func c17(w *core.World, rep *core.Report) {
	std(rep)
	w.Cx.MaxVisits = 200
	rep.Explain = "GPRS timers: the encoders are proved against independent decoders of TS 24.008 (spec.GPRSTimer2Dec/3Dec): for every duration in range the encoded octet decodes to at most the duration, and to exactly the duration when it is representable (finite disjunction over units). Session AMBR: strToAMBRUnit against the unit table; ModelsToSessionAMBR on every decimal string of 1..5 digits (value <= 65535) with each of the five units, uplink and downlink (symbolic digits; exact models of strings.Split and strconv.ParseUint on explicit strings). Time zone: getTimeZoneOffset against spec.TimeZoneSeconds; parseTimeZoneToNas on every string sign HH:MM[+D] of the quarter-hour grid (symbolic sign and hour digits, each minute value and adjustment): the octet decodes to 900*(quarters + 4*D) whenever that lies within +-79 quarters. Network names: Full/ShortNetworkNameToNas for every length 0..64 with symbolic 7-bit characters: length octet, coding octet with spare-bit count, every septet (spec.Septet, TS 23.038) equals the character."
	jobs := ContractJobs(w, rep, []string{"nasConvert.GPRSTimer2ToNas", "nasConvert.GPRSTimer3ToNas", "nasConvert.strToAMBRUnit", "nasConvert.getTimeZoneOffset", "nasConvert.DecodeUniversalTimeAndLocalTimeZone"})
	jobs = append(jobs, tzJobs(w, rep)...)
	jobs = append(jobs, ambrJobs(w, rep)...)
	maxN := 64
	jobs = append(jobs, nameJobs(w, rep, maxN)...)
	RunJobs(w, rep, jobs)
	rep.Bounded = append(rep.Bounded, core.Bounded{Function: "nasConvert.FullNetworkNameToNas / ShortNetworkNameToNas / packGsm7bit", Bound: "name length enumerated 0..64 (the property's own range); characters symbolic"})
	rep.Floor = 300
	rep.AddUnique(&rep.Assumptions,
		"universal time stamps: only the per-field coding is covered (BCD/semi-octet helpers are exercised through the time zone obligations); time.Time, time.Date and time.FixedZone are trusted dependencies, so 'decode to the encoded instant' for all instants 2000-2099 is not proved here",
		"time zone totals beyond +-79 quarters of an hour (e.g. +19:45 with +2) have no representation in the octet format and are excluded",
		"session AMBR inputs are the canonical strings '<1..5 decimal digits> <unit>'; other spellings are outside the statement")
	_ = ssa.BuilderMode(0)
}
