package props

import (
	"time"

	"verif/engine/internal/core"
	. "verif/engine/internal/smt"
	"verif/engine/internal/sym"
)

func init() { Registry["C14"] = c14 }

var c14Funcs = []string{
	"nasConvert.SuciToStringWithError", "nasConvert.SuciToString", "nasConvert.NaiToString", "nasConvert.naiToString",
	"nasConvert.GutiToStringWithError", "nasConvert.GutiToString", "nasConvert.GutiToNasWithError", "nasConvert.GutiToNas",
	"nasConvert.PeiToStringWithError", "nasConvert.PeiToString", "nasConvert.GetTypeOfIdentity",
	"nasConvert.AmfIdToNasWithError", "nasConvert.AmfIdToNas",
	"nasConvert.RequestedNssaiToModels", "nasConvert.snssaiToModels", "nasConvert.SnssaiToModels", "nasConvert.LadnToModels",
	"nasConvert.UESecurityCapabilityToByteArray", "nasConvert.PSIToBooleanArray", "nasConvert.UpuAckToModels",
	"nasConvert.DecodeUniversalTimeAndLocalTimeZone", "nasConvert.DecodeLocalTimeZone", "nasConvert.DecodeDaylightSavingTime",
	"nasConvert.PDUSessionTypeToModels", "nasConvert.SpareHalfOctetAndNgksiToModels",
	"(*nasConvert.ProtocolConfigurationOptions).UnMarshal",
	"(*nasType.MobileIdentity5GS).GetTypeOfIdentity", "(*nasType.MobileIdentity5GS).GetMobileIdentity", "(*nasType.MobileIdentity5GS).GetSUCI",
	"(*nasType.MobileIdentity5GS).GetPlmnID", "(*nasType.MobileIdentity5GS).GetMCC", "(*nasType.MobileIdentity5GS).GetMNC",
	"(*nasType.MobileIdentity5GS).Get5GGUTI", "(*nasType.MobileIdentity5GS).GetAmfID", "(*nasType.MobileIdentity5GS).GetAmfRegionID",
	"(*nasType.MobileIdentity5GS).GetAmfSetID", "(*nasType.MobileIdentity5GS).GetAmfPointer", "(*nasType.MobileIdentity5GS).Get5GTMSI",
	"(*nasType.MobileIdentity5GS).GetIMEI", "(*nasType.MobileIdentity5GS).GetIMEISV", "(*nasType.MobileIdentity5GS).Get5GSTMSI",
	"nasType.naiToString", "nasType.peiToString", "(*nasType.DNN).GetDNN", "nasType.rfc1035tofqdn",
}

// safetySpec: receiver non-nil, otherwise no assumption; contract clauses (requires/loop specs) are used if present.
func safetySpec(w *core.World, key string) *sym.FnSpec {
	if fc := w.Contracts.ByKey[key]; fc != nil {
		sp := fc.Spec()
		if len(fc.LenCases) > 0 {
			// functional clauses of contracts with length cases are decided by the property that owns them
			sp.Post = nil
		}
		return sp
	}
	fn := w.Funcs[key]
	return &sym.FnSpec{Requires: func(fx *sym.FnExec, st *sym.State, args []sym.Value) {
		if fn.Signature.Recv() != nil {
			if p, ok := args[0].(sym.PtrV); ok {
				st.Assume(Not(p.Nil))
			}
		}
	}}
}

func SafetyJobs(w *core.World, rep *core.Report, keys []string) []Job {
	var jobs []Job
	for _, k := range keys {
		fn := w.Funcs[k]
		if fn == nil {
			rep.Aborted[k] = "contract-binding: function not found in the current tree"
			continue
		}
		jobs = append(jobs, Job{Fn: fn, Spec: safetySpec(w, k)})
	}
	return jobs
}

func c14(w *core.World, rep *core.Report) {
	std(rep)
	rep.Explain = "Safety-only contracts (requires true / receiver non-nil; no assumption on the bytes or strings): every index, slice expression, nil dereference, division, make size and library precondition in each helper is an obligation over a fully symbolic input of symbolic length; loops carry a variant (termination) and the invariants needed for the bounds."
	QuickTimeout = 40 * time.Second // the functional clauses of the SUCI getters ride along and take up to 8 s alone
	RunJobs(w, rep, SafetyJobs(w, rep, c14Funcs))
}
