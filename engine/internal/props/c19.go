package props

import (
	"fmt"
	"go/types"
	"sort"
	"strings"

	"golang.org/x/tools/go/ssa"

	"verif/engine/internal/core"
	"verif/engine/internal/sym"
)

func init() { Registry["C19"] = c19 }

var c19Pkgs = []string{"nas", "nasMessage", "nasType", "nasConvert", "security", "security/snow3g", "security/zuc", "uePolicyContainer"}

// isRefType: values of this type give access to shared memory when copied.
func isRefType(t types.Type) bool {
	switch u := t.Underlying().(type) {
	case *types.Pointer, *types.Slice, *types.Map, *types.Chan, *types.Signature:
		return true
	case *types.Interface:
		return !sym.IsErrorType(t)
	case *types.Struct:
		for i := 0; i < u.NumFields(); i++ {
			if isRefType(u.Field(i).Type()) {
				return true
			}
		}
	case *types.Array:
		return isRefType(u.Elem())
	}
	return false
}

type c19Finding struct {
	kind string
	pos  string
	what string
}

// trusted callees that may receive package-level state (internally synchronised or read-only)
func trustedSharedCallee(name string) bool {
	return strings.HasPrefix(name, "(*github.com/sirupsen/logrus.Entry).") || strings.HasPrefix(name, "(*github.com/sirupsen/logrus.Logger).")
}

func scanFunction(prog *ssa.Program, fn *ssa.Function) []c19Finding {
	var out []c19Finding
	pos := func(in ssa.Instruction) string {
		p := prog.Fset.Position(in.Pos())
		if !p.IsValid() {
			return ""
		}
		return fmt.Sprintf("%s:%d", p.Filename, p.Line)
	}
	// taint: SSA values that refer to package-level memory
	taint := map[ssa.Value]string{}
	var why func(v ssa.Value) (string, bool)
	why = func(v ssa.Value) (string, bool) {
		if g, ok := v.(*ssa.Global); ok {
			if g.Pkg != nil && strings.HasPrefix(g.Pkg.Pkg.Path(), core.ModPath) || g.Pkg != nil {
				return g.String(), true
			}
		}
		if w, ok := taint[v]; ok {
			return w, true
		}
		return "", false
	}
	changed := true
	for changed {
		changed = false
		mark := func(v ssa.Value, w string) {
			if _, ok := taint[v]; !ok {
				taint[v] = w
				changed = true
			}
		}
		for _, b := range fn.Blocks {
			for _, in := range b.Instrs {
				switch x := in.(type) {
				case *ssa.FieldAddr:
					if w, ok := why(x.X); ok {
						mark(x, w)
					}
				case *ssa.IndexAddr:
					if w, ok := why(x.X); ok {
						mark(x, w)
					}
				case *ssa.Slice:
					if w, ok := why(x.X); ok {
						mark(x, w)
					}
				case *ssa.UnOp:
					// loading a reference-typed value out of package-level memory yields shared memory
					if w, ok := why(x.X); ok && isRefType(x.Type()) {
						mark(x, w)
					}
				case *ssa.Phi:
					for _, e := range x.Edges {
						if w, ok := why(e); ok {
							mark(x, w)
						}
					}
				case *ssa.ChangeType:
					if w, ok := why(x.X); ok {
						mark(x, w)
					}
				case *ssa.Convert:
					if w, ok := why(x.X); ok && isRefType(x.Type()) {
						mark(x, w)
					}
				case *ssa.MakeInterface:
					if w, ok := why(x.X); ok {
						mark(x, w)
					}
				case *ssa.ChangeInterface:
					if w, ok := why(x.X); ok {
						mark(x, w)
					}
				case *ssa.Extract:
					if w, ok := why(x.Tuple); ok && isRefType(x.Type()) {
						mark(x, w)
					}
				case *ssa.Field:
					if w, ok := why(x.X); ok && isRefType(x.Type()) {
						mark(x, w)
					}
				case *ssa.Index:
					if w, ok := why(x.X); ok && isRefType(x.Type()) {
						mark(x, w)
					}
				case *ssa.Lookup:
					if w, ok := why(x.X); ok && isRefType(x.Type()) {
						mark(x, w)
					}
				case *ssa.TypeAssert:
					if w, ok := why(x.X); ok {
						mark(x, w)
					}
				}
			}
		}
	}
	isInit := fn.Name() == "init" || strings.HasPrefix(fn.Name(), "init#")
	for _, b := range fn.Blocks {
		for _, in := range b.Instrs {
			switch x := in.(type) {
			case *ssa.Store:
				if w, ok := why(x.Addr); ok && !isInit {
					out = append(out, c19Finding{"global-write", pos(in), "store into package-level " + w})
				}
				if w, ok := why(x.Val); ok && !isInit {
					out = append(out, c19Finding{"global-escape", pos(in), "reference to package-level " + w + " stored into other memory"})
				}
			case *ssa.MapUpdate:
				if w, ok := why(x.Map); ok && !isInit {
					out = append(out, c19Finding{"global-write", pos(in), "map update of package-level " + w})
				}
			case *ssa.Return:
				for _, r := range x.Results {
					if w, ok := why(r); ok {
						out = append(out, c19Finding{"global-escape", pos(in), "reference to package-level " + w + " returned"})
					}
				}
			case *ssa.Go:
				out = append(out, c19Finding{"sync", pos(in), "go statement"})
			case *ssa.Select:
				out = append(out, c19Finding{"sync", pos(in), "select statement"})
			case *ssa.Send:
				out = append(out, c19Finding{"sync", pos(in), "channel send"})
			case *ssa.MakeChan:
				out = append(out, c19Finding{"sync", pos(in), "channel creation"})
			case *ssa.Call, *ssa.Defer:
				var cc *ssa.CallCommon
				if c, ok := x.(*ssa.Call); ok {
					cc = &c.Call
				} else {
					cc = &x.(*ssa.Defer).Call
				}
				name := ""
				if cc.IsInvoke() {
					name = "invoke:" + cc.Method.FullName()
				} else if f, ok := cc.Value.(*ssa.Function); ok {
					name = f.String()
					if f.Pkg != nil {
						switch f.Pkg.Pkg.Path() {
						case "sync", "sync/atomic", "unsafe":
							out = append(out, c19Finding{"sync", pos(in), "call of " + name})
						}
					}
				} else if bi, ok := cc.Value.(*ssa.Builtin); ok {
					name = "builtin:" + bi.Name()
				}
				// arguments that refer to package-level memory
				args := cc.Args
				if cc.IsInvoke() {
					args = append([]ssa.Value{cc.Value}, args...)
				}
				for i, a := range args {
					w, ok := why(a)
					if !ok || isInit {
						continue
					}
					switch {
					case name == "builtin:len" || name == "builtin:cap":
					case name == "builtin:copy" && i == 1:
						// reading from a table
					case name == "builtin:copy" && i == 0, name == "builtin:append" && i == 0, name == "builtin:delete":
						out = append(out, c19Finding{"global-write", pos(in), fmt.Sprintf("%s into package-level %s", strings.TrimPrefix(name, "builtin:"), w)})
					case trustedSharedCallee(name):
					default:
						out = append(out, c19Finding{"global-escape", pos(in), fmt.Sprintf("reference to package-level %s passed to %s", w, name)})
					}
				}
			}
			// types from sync / atomic / unsafe used as values
			if v, ok := in.(ssa.Value); ok && v.Type() != nil {
				ts := v.Type().String()
				if strings.Contains(ts, "sync.") || strings.Contains(ts, "atomic.") || strings.Contains(ts, "unsafe.Pointer") {
					out = append(out, c19Finding{"sync", pos(in), "value of type " + ts})
				}
			}
		}
	}
	return out
}

func c19(w *core.World, rep *core.Report) {
	std(rep)
	rep.Explain = "The property's premise - no hidden shared mutable state - is decided as frame/provenance obligations on every non-test function of nas, nasMessage, nasType, nasConvert, security, snow3g, zuc and uePolicyContainer, from the SSA of the current tree: (global-write) no store, map update, copy, append or delete whose target has package-level provenance outside init; (global-escape) no reference to package-level memory is returned, stored elsewhere or passed to a callee other than the logger; (sync) no go statement, channel, sync, atomic or unsafe use. Package-level variables and their declared types are checked the same way. From these the absence of data races between calls on distinct values and equality with a sequential run follow by the non-interference argument stated under assumptions; schedules are not enumerated."
	pkgs := map[string]bool{}
	for _, p := range c19Pkgs {
		pkgs[p] = true
	}
	var fns []*ssa.Function
	for _, fn := range w.Funcs {
		if fn.Pkg == nil || !pkgs[core.ShortPkg(fn.Pkg.Pkg.Path())] {
			continue
		}
		fns = append(fns, fn)
	}
	// anonymous functions and package initialisers
	for _, p := range c19Pkgs {
		if sp := w.SSAPkgs[p]; sp != nil {
			if f := sp.Func("init"); f != nil {
				fns = append(fns, f)
			}
		}
	}
	sort.Slice(fns, func(i, j int) bool { return sym.FuncName(fns[i]) < sym.FuncName(fns[j]) })
	seen := map[*ssa.Function]bool{}
	var all []*ssa.Function
	var add func(f *ssa.Function)
	add = func(f *ssa.Function) {
		if seen[f] {
			return
		}
		seen[f] = true
		all = append(all, f)
		for _, a := range f.AnonFuncs {
			add(a)
		}
	}
	for _, f := range fns {
		add(f)
	}
	for _, fn := range all {
		name := sym.FuncName(fn)
		rep.Functions = append(rep.Functions, name)
		fs := scanFunction(w.Prog, fn)
		byKind := map[string][]c19Finding{}
		for _, f := range fs {
			byKind[f.kind] = append(byKind[f.kind], f)
		}
		for _, k := range []string{"global-write", "global-escape", "sync"} {
			oc := core.Outcome{Name: name + "#frame." + k, Kind: "frame", Fn: name, Status: "discharged", Backend: "provenance", Members: 1}
			if l := byKind[k]; len(l) > 0 {
				oc.Status = "failed"
				var ws []string
				for _, f := range l {
					ws = append(ws, f.what+" ("+f.pos+")")
				}
				oc.Info = strings.Join(ws, "; ")
				oc.Pos = l[0].pos
			}
			rep.Outcomes = append(rep.Outcomes, oc)
		}
	}
	// package-level variables: none may be of a synchronisation type; list them for the evidence
	var globals []string
	for _, p := range c19Pkgs {
		sp := w.SSAPkgs[p]
		if sp == nil {
			continue
		}
		var names []string
		for n := range sp.Members {
			names = append(names, n)
		}
		sort.Strings(names)
		for _, n := range names {
			g, ok := sp.Members[n].(*ssa.Global)
			if !ok || strings.HasPrefix(n, "init$") {
				continue
			}
			t := g.Type().(*types.Pointer).Elem()
			globals = append(globals, fmt.Sprintf("%s.%s %s", p, n, t))
			oc := core.Outcome{Name: fmt.Sprintf("%s.%s#frame.global-type", p, n), Kind: "frame", Fn: p + "." + n, Status: "discharged", Backend: "provenance", Members: 1}
			ts := t.String()
			if strings.Contains(ts, "sync.") || strings.Contains(ts, "atomic.") || strings.Contains(ts, "chan ") {
				oc.Status = "failed"
				oc.Info = "package-level variable of synchronisation/pool type " + ts
			}
			rep.Outcomes = append(rep.Outcomes, oc)
		}
	}
	rep.Extra["package_level_variables"] = globals
	rep.Floor = 5000
	rep.AddUnique(&rep.Trusted, "logrus entry methods are internally synchronised and do not expose library state", "standard-library and dependency functions called by the library keep no state that links independent calls (bytes, encoding/binary, hex, strconv, strings, fmt, crypto/aes, cipher, cmac, time)")
	rep.AddUnique(&rep.Assumptions,
		"non-interference argument (not machine-checked): if no function writes package-level memory after init, none lets a reference to it escape, and none uses goroutines/channels/sync, then two calls whose argument-reachable memory is disjoint write disjoint locations and only read shared ones, hence no data race under the Go memory model and each call computes the function of its arguments established by the other properties; concurrent readers of one decoded message write nothing (getter frame obligations of C09)",
		"interleavings are not enumerated; the claim is the frame discipline that implies the statement",
		"logger configuration calls (logger.SetLogLevel, SetReportCaller) are outside the statement")
}
