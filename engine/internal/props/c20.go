package props

import (
	"verif/engine/internal/core"
	. "verif/engine/internal/smt"
	"verif/engine/internal/sym"
)

func init() { Registry["C20"] = c20 }

var c20Funcs = []string{
	"uePolicyContainer.NewGenerator", "(*uePolicyContainer.IDGenerator).init", "(*uePolicyContainer.IDGenerator).updateOffset",
	"(*uePolicyContainer.IDGenerator).setOffset", "(*uePolicyContainer.IDGenerator).Allocate",
	"(*uePolicyContainer.IDGenerator).Allocate_inRange", "(*uePolicyContainer.IDGenerator).FreeID",
}

// sremLemma: the facts about x % y that are assumed wherever a 64-bit remainder with symbolic divisor occurs.
func sremLemma() *sym.Oblig {
	x, y := Var("lemma.x", BV(64)), Var("lemma.y", BV(64))
	r := SRem(x, y)
	z := BVC(64, 0)
	g1 := Implies(And(SLe(z, x), SLt(z, y)), And(SLe(z, r), SLt(r, y), Implies(SLt(x, y), Eq(r, x)), Implies(And(SLe(y, x), SLt(Sub(x, y), y)), Eq(r, Sub(x, y)))))
	g2 := Implies(And(SLt(x, z), SLt(z, y)), And(SLt(Neg(y), r), SLe(r, z)))
	return &sym.Oblig{Name: "lemma.srem64", Kind: "lemma", Fn: "arith", Goal: And(g1, g2), Info: "remainder lemma used for x % y with symbolic divisor"}
}

func c20(w *core.World, rep *core.Report) {
	std(rep)
	rep.Explain = "Representation invariant (range = max-min+1 >= 1, 0 <= offset < range, every key of usedMap inside [0, range)) and the live-set view (key set of usedMap) are pre/postconditions of every method of IDGenerator: a returned id is within [minValue, maxValue], was not live, and becomes live; errors leave the live set unchanged; plain Allocate fails only when every offset is live (scan-loop invariant over the cyclic interval scanned so far, variant = cyclic distance to the start offset); FreeID removes exactly the id. Histories follow by induction over operations."
	jobs := ContractJobs(w, rep, c20Funcs)
	RunJobs(w, rep, jobs)
	opt := Tiered(rep.Tier)
	opt.Timeout *= 3
	rep.Outcomes = append(rep.Outcomes, core.Discharge([]*sym.Oblig{sremLemma()}, opt)...)
	rep.Floor = 40
	rep.AddUnique(&rep.Assumptions,
		"map[int64]bool is modelled as an SMT array of presence bits; universally quantified clauses are proved at a skolem key and used at the same skolem (instances of the hypothesis)",
		"induction over operation histories (NewGenerator establishes the invariant, every method preserves it, fields are unexported) is a paper step",
		"NewGenerator/init require minValue <= maxValue and maxValue - minValue < 2^62 (no overflow of the range)")
}
