package props

import (
	"encoding/json"
	"fmt"
	"go/types"
	"os"
	"path/filepath"
	"sort"
	"strings"
	"sync"

	"golang.org/x/tools/go/ssa"

	"verif/engine/internal/contract"
	"verif/engine/internal/core"
	. "verif/engine/internal/smt"
	"verif/engine/internal/sym"
)

// ---------------- message tables (spec/messages.json) ----------------

type LenSpec struct {
	Min *int  `json:"min"`
	Max *int  `json:"max"`
	Set []int `json:"set"`
}

type Elem struct {
	Field     string   `json:"field"`
	Mandatory bool     `json:"mandatory"`
	IEI       int      `json:"iei"`
	Format    string   `json:"format"`
	Octets    int      `json:"octets"`
	Len       *LenSpec `json:"len"`
}

type MsgTable struct {
	Elements []Elem `json:"elements"`
}

type Tables struct {
	Dispatch map[string]map[string]int `json:"dispatch"`
	Messages map[string]*MsgTable      `json:"messages"`
}

func LoadTables() (*Tables, error) {
	data, err := os.ReadFile(filepath.Join(core.VerifDir, "spec", "messages.json"))
	if err != nil {
		return nil, err
	}
	var t Tables
	if err := json.Unmarshal(data, &t); err != nil {
		return nil, err
	}
	return &t, nil
}

func (l *LenSpec) allowed(L *Term) *Term {
	w := L.S.W
	if len(l.Set) > 0 {
		var cs []*Term
		for _, v := range l.Set {
			cs = append(cs, Eq(L, BVC(w, uint64(v))))
		}
		return Or(cs...)
	}
	c := True
	if l.Min != nil {
		c = And(c, ULe(BVC(w, uint64(*l.Min)), L))
	}
	if l.Max != nil {
		c = And(c, ULe(L, BVC(w, uint64(*l.Max))))
	}
	return c
}

func (l *LenSpec) maxVal() int {
	m := 0
	for _, v := range l.Set {
		if v > m {
			m = v
		}
	}
	if l.Max != nil && *l.Max > m {
		m = *l.Max
	}
	return m
}

// elemRep: Go representation of an element type.
type elemRep struct {
	T       types.Type // struct type (pointee for optional elements)
	St      *types.Struct
	Iei     int // field indices or -1
	Len     int
	LenW    int
	Data    int    // Octet / Buffer field index or -1
	Kind    string // "octet" | "array" | "buffer" | "none"
	N       int    // array length
	FieldIx int    // index of the element in the message struct
	Ptr     bool
}

func repOf(msg *types.Struct, name string) (*elemRep, error) {
	for i := 0; i < msg.NumFields(); i++ {
		f := msg.Field(i)
		if f.Name() != name {
			continue
		}
		r := &elemRep{FieldIx: i, Iei: -1, Len: -1, Data: -1, Kind: "none"}
		t := f.Type()
		if p, ok := t.Underlying().(*types.Pointer); ok {
			r.Ptr = true
			t = p.Elem()
		}
		st, ok := t.Underlying().(*types.Struct)
		if !ok {
			return nil, fmt.Errorf("element %s is not a struct", name)
		}
		r.T, r.St = t, st
		for j := 0; j < st.NumFields(); j++ {
			switch st.Field(j).Name() {
			case "Iei":
				r.Iei = j
			case "Len":
				r.Len = j
				r.LenW, _ = sym.IsByteLike(st.Field(j).Type())
			case "Octet":
				r.Data = j
				if a, ok := st.Field(j).Type().Underlying().(*types.Array); ok {
					r.Kind, r.N = "array", int(a.Len())
				} else {
					r.Kind = "octet"
				}
			case "Buffer":
				r.Data = j
				r.Kind = "buffer"
			}
		}
		return r, nil
	}
	return nil, fmt.Errorf("message struct has no field %s", name)
}

type codecCtx struct {
	w     *core.World
	tab   *MsgTable
	name  string
	msgT  *types.Struct
	reps  []*elemRep
	fn    *ssa.Function
	fc    *contract.FuncContract
	fname string
}

func newCodecCtx(w *core.World, tabs *Tables, fc *contract.FuncContract) (*codecCtx, error) {
	tab := tabs.Messages[fc.Codec]
	if tab == nil {
		return nil, fmt.Errorf("no table for message %s", fc.Codec)
	}
	fn := fc.Fn
	mt, ok := fn.Params[0].Type().(*types.Pointer).Elem().Underlying().(*types.Struct)
	if !ok {
		return nil, fmt.Errorf("receiver is not a struct pointer")
	}
	c := &codecCtx{w: w, tab: tab, name: fc.Codec, msgT: mt, fn: fn, fc: fc, fname: sym.FuncName(fn)}
	// static side conditions: field order equals table order, representation matches format
	if mt.NumFields() != len(tab.Elements) {
		return nil, fmt.Errorf("struct %s has %d fields, table has %d elements", fc.Codec, mt.NumFields(), len(tab.Elements))
	}
	for i, e := range tab.Elements {
		r, err := repOf(mt, e.Field)
		if err != nil {
			return nil, err
		}
		if r.FieldIx != i {
			return nil, fmt.Errorf("element %s is field %d of the struct but row %d of the table", e.Field, r.FieldIx, i)
		}
		if r.Ptr == e.Mandatory {
			return nil, fmt.Errorf("element %s: presence in table (mandatory=%v) does not match the struct (pointer=%v)", e.Field, e.Mandatory, r.Ptr)
		}
		c.reps = append(c.reps, r)
	}
	return c, nil
}

func hasLen(f string) int {
	switch f {
	case "LV", "TLV":
		return 1
	case "LV-E", "TLV-E":
		return 2
	}
	return 0
}

// tableSideConditions: lemmas on the table itself needed by the round-trip argument (C02/C03).
func (c *codecCtx) tableSideConditions() []core.Outcome {
	var out []core.Outcome
	add := func(name string, ok bool, info string) {
		st := "discharged"
		if !ok {
			st = "failed"
		}
		out = append(out, core.Outcome{Name: "table." + c.name + "#" + name, Kind: "lemma", Fn: "table." + c.name, Status: st, Backend: "syntactic", Info: info, Members: 1})
	}
	seen := map[int]string{}
	for i, e := range c.tab.Elements {
		r := c.reps[i]
		if !e.Mandatory {
			key := e.IEI
			if prev, dup := seen[key]; dup {
				add("iei.distinct["+e.Field+"]", false, fmt.Sprintf("IEI 0x%x of %s also used by %s", e.IEI, e.Field, prev))
			} else {
				add("iei.distinct["+e.Field+"]", true, "")
			}
			seen[key] = e.Field
			if e.Format == "TV1" {
				add("iei.range["+e.Field+"]", e.IEI >= 8 && e.IEI <= 15, "half-octet IEI must be 8..15")
			} else {
				add("iei.range["+e.Field+"]", e.IEI >= 16 && e.IEI < 0x80, "full-octet IEI must be 0x10..0x7f")
			}
		}
		if e.Len != nil {
			fits := true
			why := ""
			mx := e.Len.maxVal()
			switch r.Kind {
			case "array":
				if mx > r.N {
					fits, why = false, fmt.Sprintf("maximum length %d exceeds backing array [%d]", mx, r.N)
				}
			case "octet":
				if mx > 1 {
					fits, why = false, "single-octet element with length > 1"
				}
			}
			lim := 255
			if hasLen(e.Format) == 2 {
				lim = 65535
			}
			if mx > lim {
				fits, why = false, "maximum length does not fit the length field"
			}
			if hasLen(e.Format)*8 != r.LenW {
				fits, why = false, fmt.Sprintf("length field is %d bits in the struct, format %s", r.LenW, e.Format)
			}
			add("len.fits["+e.Field+"]", fits, why)
		} else if e.Format == "V" || e.Format == "TV" {
			n := 0
			switch r.Kind {
			case "octet":
				n = 1
			case "array":
				n = r.N
			}
			add("size["+e.Field+"]", n == e.Octets, fmt.Sprintf("table says %d octets, representation has %d", e.Octets, n))
		}
	}
	return out
}

// ---------------- helpers on symbolic element values ----------------

func fieldOf(v sym.Value, i int) sym.Value { return v.(sym.StructV).F[i] }

func (c *codecCtx) elemValue(st *sym.State, a sym.StructV, i int) (present *Term, ev sym.StructV, ok bool) {
	r := c.reps[i]
	f := a.F[r.FieldIx]
	if !r.Ptr {
		return True, f.(sym.StructV), true
	}
	p := f.(sym.PtrV)
	if p.Obj == nil {
		return False, sym.StructV{}, false
	}
	hv, has := st.Heap[p.Obj]
	if !has {
		return Not(p.Nil), sym.StructV{}, false
	}
	return Not(p.Nil), hv.(sym.StructV), true
}

// ---------------- encoder ----------------

type seg struct {
	n   *Term // BV64 length (0 when absent)
	c   sym.Content
	off *Term
}

// encSegments: ENC_T(a) as a list of segments, evaluated on the entry state.
func (c *codecCtx) encSegments(fx *sym.FnExec, st *sym.State, a sym.StructV) ([]seg, *Term) {
	var segs []seg
	wf := True // representation well-formedness needed for panic freedom (Len <= N for array-backed elements)
	b64 := func(v uint64) *Term { return BVC(64, v) }
	for i, e := range c.tab.Elements {
		r := c.reps[i]
		present, ev, ok := c.elemValue(st, a, i)
		if !ok {
			continue
		}
		gate := func(n *Term) *Term { return Ite(present, n, b64(0)) }
		one := func(t *Term) seg {
			return seg{n: gate(b64(1)), c: sym.CVec{E: []*Term{t}, W: 8}, off: b64(0)}
		}
		// identifier
		if !e.Mandatory && e.Format != "TV1" {
			if r.Iei < 0 {
				panic(sym.Unsupported{Msg: "element " + e.Field + " has an IEI in the table but no Iei field"})
			}
			segs = append(segs, one(ev.F[r.Iei].(sym.Scalar).T))
		}
		// length
		var L *Term
		if w := hasLen(e.Format); w > 0 {
			L = ev.F[r.Len].(sym.Scalar).T
			if w == 1 {
				segs = append(segs, one(L))
			} else {
				segs = append(segs, seg{n: gate(b64(2)), c: sym.CVec{E: []*Term{Extract(15, 8, L), Extract(7, 0, L)}, W: 8}, off: b64(0)})
			}
		}
		// value
		switch r.Kind {
		case "octet":
			segs = append(segs, one(ev.F[r.Data].(sym.Scalar).T))
		case "array":
			arr := ev.F[r.Data].(sym.ArrV)
			if L != nil && e.Len != nil && len(e.Len.Set) == 1 {
				// fixed-length element: the value part is the table's length, whatever Len holds
				segs = append(segs, seg{n: gate(b64(uint64(e.Len.Set[0]))), c: arr.C, off: b64(0)})
			} else if L != nil {
				l64 := ZExt(64, L)
				wf = And(wf, Implies(present, ULe(l64, b64(uint64(r.N)))))
				segs = append(segs, seg{n: gate(l64), c: arr.C, off: b64(0)})
			} else {
				segs = append(segs, seg{n: gate(b64(uint64(r.N))), c: arr.C, off: b64(0)})
			}
		case "buffer":
			sl := ev.F[r.Data].(sym.SliceV)
			var cc sym.Content = sym.CZero{W: 8}
			if sl.Obj != nil {
				cc = st.Heap[sl.Obj].(sym.ArrV).C
			}
			segs = append(segs, seg{n: gate(sl.Len), c: cc, off: sl.Off})
		case "none":
		}
	}
	return segs, wf
}

func (c *codecCtx) encoderSpec() *sym.FnSpec {
	// Per-cut reasoning: the buffer at the previous cut is an arbitrary (content B, length L); the code between two
	// cuts must turn it into B ++ ENC_T[rows since the previous cut]. The whole-function statement
	// buffer == old(buffer) ++ ENC_T(a) follows by transitivity over the cuts.
	type cutState struct {
		rows int         // table rows accounted for so far
		B    sym.Content // buffer content at the last cut
		L    *Term       // buffer length at the last cut
		j    int         // number of joins seen
	}
	var mu sync.Mutex
	cuts := map[*sym.FnExec]*cutState{}
	get := func(fx *sym.FnExec) *cutState {
		mu.Lock()
		defer mu.Unlock()
		cs := cuts[fx]
		if cs == nil {
			entry := fx.EntryState
			b := fx.EntryArgs[1].(sym.PtrV)
			buf0 := entry.Heap[b.Obj].(sym.StructV).F[0].(sym.SliceV)
			var base sym.Content = sym.CZero{W: 8}
			if buf0.Obj != nil {
				base = entry.Heap[buf0.Obj].(sym.ArrV).C
			}
			cs = &cutState{B: base, L: buf0.Len}
			cuts[fx] = cs
		}
		return cs
	}
	optRows := []int{}
	for i, e := range c.tab.Elements {
		if !e.Mandatory {
			optRows = append(optRows, i+1)
		}
	}
	// compare the buffer in st with lastCut ++ ENC_T[cs.rows : rows] and start a new cut
	compare := func(fx *sym.FnExec, st *sym.State, rows int, name, info string) {
		cs := get(fx)
		entry := fx.EntryState
		a := fx.EntryArgs[0].(sym.PtrV)
		b := fx.EntryArgs[1].(sym.PtrV)
		part := *c
		tab := *c.tab
		tab.Elements = c.tab.Elements[cs.rows:rows]
		part.tab = &tab
		part.reps = c.reps[cs.rows:rows]
		segs, _ := part.encSegments(fx, entry, entry.Heap[a.Obj].(sym.StructV))
		ln := cs.L
		exp := cs.B
		for _, s := range segs {
			exp = sym.CopyC(exp, ln, s.c, s.off, s.n)
			ln = Add(ln, s.n)
		}
		bs1 := st.Heap[b.Obj].(sym.StructV)
		buf1 := bs1.F[0].(sym.SliceV)
		var got sym.Content = sym.CZero{W: 8}
		if buf1.Obj != nil {
			got = st.Heap[buf1.Obj].(sym.ArrV).C
		}
		// case split on the presence flags of the optional elements in this segment (substituted, so that each
		// case is a straight comparison of two append chains)
		split := func(g *Term) *Term {
			for i := cs.rows; i < rows; i++ {
				if c.tab.Elements[i].Mandatory {
					continue
				}
				av := entry.Heap[a.Obj].(sym.StructV)
				pv, ok := av.F[c.reps[i].FieldIx].(sym.PtrV)
				if !ok || pv.Nil.Op != "var" {
					continue
				}
				g = And(Implies(pv.Nil, Subst(g, map[*Term]*Term{pv.Nil: True})), Implies(Not(pv.Nil), Subst(g, map[*Term]*Term{pv.Nil: False})))
			}
			return g
		}
		fx.Oblige(st, c.fname+"#"+name+".len", "post", split(Eq(buf1.Len, ln)), "", info+" (length)")
		fx.Oblige(st, c.fname+"#"+name+".bytes", "post", split(fx.EqContent(got, buf1.Off, exp, BVC(64, 0), ln)), "", info)
		// new cut: arbitrary content/length standing for the proved-equal buffer
		nB := sym.CSym{A: fx.Cx.Fresh("cut.buf", Arr(64, 8))}
		nL := fx.Cx.Fresh("cut.len", BV(64))
		st.Assume(ULt(nL, BVC(64, 1<<42)))
		o := fx.Cx.NewObj("bytes.Buffer.buf", types.NewSlice(types.Typ[types.Uint8]), sym.ProvFresh)
		st.Heap[o] = sym.ArrV{EW: 8, Len: nL, C: nB}
		nf := append([]sym.Value(nil), bs1.F...)
		nf[0] = sym.SliceV{Nil: False, Obj: o, Off: BVC(64, 0), Len: nL, Cap: nL}
		st.Heap[b.Obj] = sym.StructV{F: nf}
		mu.Lock()
		cs.rows, cs.B, cs.L = rows, nB, nL
		mu.Unlock()
	}
	return &sym.FnSpec{
		Requires: func(fx *sym.FnExec, st *sym.State, args []sym.Value) {
			a := args[0].(sym.PtrV)
			b := args[1].(sym.PtrV)
			st.Assume(Not(a.Nil))
			st.Assume(Not(b.Nil))
			bs := st.Heap[b.Obj].(sym.StructV)
			buf := bs.F[0].(sym.SliceV)
			off := bs.F[1].(sym.Scalar).T
			st.Assume(And(SLe(BVC(64, 0), off), SLe(off, buf.Len)))
			_, wf := c.encSegments(fx, st, st.Heap[a.Obj].(sym.StructV))
			st.Assume(wf)
		},
		OnJoin: func(fx *sym.FnExec, fr *sym.Frame, st *sym.State, ifBlock *ssa.BasicBlock) {
			cs := get(fx)
			mu.Lock()
			j := cs.j
			cs.j++
			mu.Unlock()
			if j >= len(optRows) {
				fx.Oblige(st, fmt.Sprintf("%s#cut.extra[%d]", c.fname, j), "post", False, "", "encoder has more conditional blocks than the table has optional elements")
				return
			}
			e := c.tab.Elements[optRows[j]-1]
			compare(fx, st, optRows[j], "cut["+e.Field+"]", "the code up to and including the block of optional element "+e.Field+" appends exactly the table rows since the previous cut (identifier, length, content framing; an absent element writes nothing)")
		},
		Post: func(fx *sym.FnExec, entry, exit *sym.State, args []sym.Value, ret sym.Value, ri int) {
			b := args[1].(sym.PtrV)
			cs := get(fx)
			fx.Oblige(exit, c.fname+"#post.blocks", "post", BoolC(cs.j == len(optRows)), "", fmt.Sprintf("encoder has one conditional block per optional table row (%d found, %d rows)", cs.j, len(optRows)))
			errNil := Eq(ret.(sym.ErrV).Code, BVC(8, 0))
			fx.Oblige(exit, c.fname+"#post.err", "post", errNil, "", "encoding succeeds")
			bs0 := entry.Heap[b.Obj].(sym.StructV)
			pos1 := exit.Heap[b.Obj].(sym.StructV).F[1].(sym.Scalar).T
			compare(fx, exit, len(c.tab.Elements), "post", "the code after the last cut appends exactly the remaining table rows; with the cuts: buffer == old(buffer) ++ ENC_T(a)")
			fx.Oblige(exit, c.fname+"#post.readpos", "post", Eq(pos1, bs0.F[1].(sym.Scalar).T), "", "read position of the buffer unchanged")
			// frame: message and everything reachable from it unchanged; old backing array unchanged
			var goals []*Term
			for o, v0 := range entry.Heap {
				if o == b.Obj {
					continue
				}
				if v1, ok := exit.Heap[o]; ok {
					goals = append(goals, fx.EqV(v0, v1))
				}
			}
			fx.Oblige(exit, c.fname+"#frame", "frame", And(goals...), "", "encoding modifies nothing but the buffer (message unchanged, existing buffer octets unchanged)")
		},
	}
}

// ---------------- decoder ----------------

type decPos struct {
	data sym.Content // content of the input array
	base *Term       // offset of the input slice in its array
	n    *Term       // length of the input
}

// expectElem describes the element value the table-driven decoder produces from input position q
// (q = position of the first octet after the identifier). need: octets that must be available from q;
// errc: error condition; eq: builds the goal comparing an actual element struct with the expectation.
type expectElem struct {
	errc    *Term
	advance *Term // octets consumed from q on success
	match   func(fx *sym.FnExec, st *sym.State, ev sym.StructV, freshIn *sym.State) *Term
}

func (c *codecCtx) expect(i int, d decPos, q *Term, ieiOctet *Term) expectElem {
	e := c.tab.Elements[i]
	r := c.reps[i]
	b64 := func(v uint64) *Term { return BVC(64, v) }
	avail := Sub(d.n, q) // octets available from q
	at := func(k *Term) *Term { return d.data.Elem(Add(d.base, k)) }
	w := hasLen(e.Format)
	var L *Term // value of length field in its own width
	errc := False
	hdr := b64(uint64(w))
	if w > 0 {
		errc = Or(errc, ULt(avail, hdr))
		if w == 1 {
			L = at(q)
		} else {
			L = Concat(at(q), at(Add(q, b64(1))))
		}
		errc = Or(errc, Not(e.Len.allowed(L)))
	}
	var vlen *Term
	switch {
	case e.Format == "TV1":
		vlen = b64(0)
	case w > 0 && r.Kind == "octet":
		vlen = b64(1)
	case w > 0:
		vlen = ZExt(64, L)
	case r.Kind == "octet":
		vlen = b64(1)
	case r.Kind == "array":
		vlen = b64(uint64(r.N))
	default:
		vlen = b64(0)
	}
	vq := Add(q, hdr)
	errc = Or(errc, ULt(Sub(avail, hdr), vlen))
	match := func(fx *sym.FnExec, st *sym.State, ev sym.StructV, freshIn *sym.State) *Term {
		var cs []*Term
		if r.Iei >= 0 && !e.Mandatory {
			cs = append(cs, Eq(ev.F[r.Iei].(sym.Scalar).T, ieiOctet))
		}
		if r.Len >= 0 && w > 0 {
			cs = append(cs, Eq(ev.F[r.Len].(sym.Scalar).T, L))
		}
		switch r.Kind {
		case "octet":
			if e.Format == "TV1" {
				cs = append(cs, Eq(ev.F[r.Data].(sym.Scalar).T, ieiOctet))
			} else {
				cs = append(cs, Eq(ev.F[r.Data].(sym.Scalar).T, at(vq)))
			}
		case "array":
			arr := ev.F[r.Data].(sym.ArrV)
			for k := 0; k < r.N; k++ {
				kk := b64(uint64(k))
				want := at(Add(vq, kk))
				if w > 0 {
					// octets beyond Len keep their previous content: zero for a freshly allocated optional element
					if e.Mandatory {
						cs = append(cs, Implies(ULt(kk, vlen), Eq(arr.C.Elem(kk), want)))
						continue
					}
					want = Ite(ULt(kk, vlen), want, BVC(8, 0))
				}
				cs = append(cs, Eq(arr.C.Elem(kk), want))
			}
		case "buffer":
			sl := ev.F[r.Data].(sym.SliceV)
			cs = append(cs, Not(sl.Nil), Eq(sl.Len, vlen))
			if sl.Obj == nil {
				cs = append(cs, Eq(vlen, b64(0)))
			} else {
				if _, existed := freshIn.Heap[sl.Obj]; existed {
					cs = append(cs, False) // content must live in storage allocated by this call (no aliasing)
				} else {
					arr := st.Heap[sl.Obj].(sym.ArrV)
					cs = append(cs, fx.EqContent(arr.C, sl.Off, d.data, Add(d.base, vq), vlen))
				}
			}
		}
		return And(cs...)
	}
	return expectElem{errc: errc, advance: Add(hdr, vlen), match: match}
}

// mandatory-part expectation when the array-backed LV element keeps octets beyond Len from the entry state.
func (c *codecCtx) decoderHooks() (*sym.FnSpec, func(*sym.LoopSpec) *sym.LoopSpec) {
	type ctxT struct {
		d      decPos
		bufObj *sym.Object
	}
	find := func(fx *sym.FnExec, st *sym.State, args []sym.Value) (ctxT, bool) {
		ba := args[1].(sym.PtrV)
		entry := fx.EntryState
		in := entry.Heap[ba.Obj].(sym.SliceV)
		var data sym.Content = sym.CZero{W: 8}
		if in.Obj != nil {
			data = entry.Heap[in.Obj].(sym.ArrV).C
		}
		cx := ctxT{d: decPos{data: data, base: in.Off, n: in.Len}}
		for o := range st.Heap {
			if o.Name == "bytes.Buffer" && o.Prov == sym.ProvFresh {
				cx.bufObj = o
			}
		}
		return cx, cx.bufObj != nil
	}
	bufOff := func(st *sym.State, o *sym.Object) *Term { return st.Heap[o].(sym.StructV).F[1].(sym.Scalar).T }
	b64 := func(v uint64) *Term { return BVC(64, v) }
	nopt := 0
	for _, e := range c.tab.Elements {
		if !e.Mandatory {
			nopt++
		}
	}
	// mandatory part: error condition and expected values at position after all mandatory elements
	mand := func(fx *sym.FnExec, cx ctxT) (errc *Term, end *Term, exps []expectElem, idx []int, starts []*Term) {
		q := b64(0)
		errc = False
		for i, e := range c.tab.Elements {
			if !e.Mandatory {
				continue
			}
			ex := c.expect(i, cx.d, q, nil)
			// an error in element i only counts if no earlier element failed; positions are well-defined then
			errc = Or(errc, ex.errc)
			exps = append(exps, ex)
			idx = append(idx, i)
			starts = append(starts, q)
			q = Add(q, ex.advance)
		}
		return errc, q, exps, idx, starts
	}
	inputUnchanged := func(fx *sym.FnExec, exit *sym.State, args []sym.Value) *Term {
		entry := fx.EntryState
		ba := args[1].(sym.PtrV)
		var gs []*Term
		gs = append(gs, fx.EqV(entry.Heap[ba.Obj], exit.Heap[ba.Obj]))
		in := entry.Heap[ba.Obj].(sym.SliceV)
		if in.Obj != nil {
			gs = append(gs, fx.EqV(entry.Heap[in.Obj], exit.Heap[in.Obj]))
		}
		return And(gs...)
	}
	spec := &sym.FnSpec{
		Requires: func(fx *sym.FnExec, st *sym.State, args []sym.Value) {
			st.Assume(Not(args[0].(sym.PtrV).Nil))
			st.Assume(Not(args[1].(sym.PtrV).Nil))
		},
		Post: func(fx *sym.FnExec, entry, exit *sym.State, args []sym.Value, ret sym.Value, ri int) {
			cx, ok := find(fx, exit, args)
			if !ok {
				panic(sym.Unsupported{Msg: "decoder: bytes.Buffer object not found"})
			}
			isErr := Ne(ret.(sym.ErrV).Code, BVC(8, 0))
			fx.Oblige(exit, c.fname+"#frame.input", "frame", inputUnchanged(fx, exit, args), "", "decoding does not modify the input octets")
			head, _ := fx.RetFrame.LoopHead()
			merr, end, _, _, _ := mand(fx, cx)
			if head == nil {
				if nopt > 0 || true {
					// return before the optional-part loop: must be an error exactly in the table decoder's error cases
					fx.Oblige(exit, c.fname+"#post.mandatory.err", "post", And(isErr, merr), "", "an error in the mandatory part is returned exactly when the table-driven decoder fails (truncation or length out of bounds)")
				}
				return
			}
			// return from inside the loop (error) or after it (success)
			p := bufOff(head, cx.bufObj)
			atEnd := Eq(p, cx.d.n)
			// spec error of the step at head position p
			stepErr := c.stepErr(cx.d, p)
			fx.Oblige(exit, c.fname+"#post.step.err", "post", Or(And(isErr, Not(atEnd), stepErr), And(Not(isErr), atEnd)), "", "inside the optional part an error is returned exactly when the table-driven step fails; nil is returned exactly at the end of the input")
			// on success the message is the state at the loop head (nothing changes after the last step)
			a := args[0].(sym.PtrV)
			fx.Oblige(exit, c.fname+"#post.final", "post", Implies(Not(isErr), fx.EqV(head.Heap[a.Obj], exit.Heap[a.Obj])), "", "the returned message is the state after the last step")
			_ = end
		},
	}
	wrap := func(ls *sym.LoopSpec) *sym.LoopSpec {
		n := *ls
		n.OnEntry = func(fx *sym.FnExec, fr *sym.Frame, st *sym.State) {
			args := fx.EntryArgs
			cx, ok := find(fx, st, args)
			if !ok {
				panic(sym.Unsupported{Msg: "decoder: bytes.Buffer object not found at loop entry"})
			}
			merr, end, exps, idx, _ := mand(fx, cx)
			a := args[0].(sym.PtrV)
			cur := st.Heap[a.Obj].(sym.StructV)
			ent := fx.EntryState.Heap[a.Obj].(sym.StructV)
			fx.Oblige(st, c.fname+"#mandatory.noerr", "post", Not(merr), "", "the optional part is reached only if the table-driven decoder accepts the mandatory part")
			fx.Oblige(st, c.fname+"#mandatory.pos", "post", Eq(bufOff(st, cx.bufObj), end), "", "the mandatory part consumes exactly the octets of the table")
			for k, i := range idx {
				ev := cur.F[c.reps[i].FieldIx].(sym.StructV)
				fx.Oblige(st, fmt.Sprintf("%s#mandatory[%s]", c.fname, c.tab.Elements[i].Field), "post", exps[k].match(fx, st, ev, fx.EntryState), "", "mandatory element has the value, length and fresh storage the table-driven decoder gives")
			}
			// optional pointers untouched by the mandatory part
			var gs []*Term
			for i, e := range c.tab.Elements {
				if !e.Mandatory {
					gs = append(gs, fx.EqV(ent.F[c.reps[i].FieldIx], cur.F[c.reps[i].FieldIx]))
				}
			}
			fx.Oblige(st, c.fname+"#mandatory.frame", "frame", And(gs...), "", "mandatory part does not touch optional elements")
		}
		n.OnBackEdge = func(fx *sym.FnExec, head *sym.State, headFr *sym.Frame, fr *sym.Frame, st *sym.State) {
			args := fx.EntryArgs
			cx, _ := find(fx, st, args)
			a := args[0].(sym.PtrV)
			p := bufOff(head, cx.bufObj)
			o := cx.d.data.Elem(Add(cx.d.base, p))
			t := Ite(ULe(BVC(8, 0x80), o), LShr(BAnd(o, BVC(8, 0xf0)), BVC(8, 4)), o)
			hv := head.Heap[a.Obj].(sym.StructV)
			cv := st.Heap[a.Obj].(sym.StructV)
			q := Add(p, b64(1))
			none := True
			for i, e := range c.tab.Elements {
				if e.Mandatory {
					continue
				}
				r := c.reps[i]
				hit := Eq(t, BVC(8, uint64(e.IEI)))
				none = And(none, Not(hit))
				ex := c.expect(i, cx.d, q, o)
				// actual element
				pv := cv.F[r.FieldIx].(sym.PtrV)
				var m *Term
				if pv.Obj == nil {
					m = False
				} else if _, existed := head.Heap[pv.Obj]; existed {
					m = False // must be a freshly allocated element
				} else {
					m = And(Not(pv.Nil), ex.match(fx, st, st.Heap[pv.Obj].(sym.StructV), head))
				}
				var others []*Term
				for j := range c.tab.Elements {
					if j != i {
						others = append(others, fx.EqV(hv.F[c.reps[j].FieldIx], cv.F[c.reps[j].FieldIx]))
					}
				}
				pos := Eq(bufOff(st, cx.bufObj), Add(q, ex.advance))
				fx.Oblige(st, fmt.Sprintf("%s#step[%s]", c.fname, e.Field), "inv.preserve", Implies(hit, And(Not(ex.errc), m, pos, And(others...))), "", "one loop iteration on this identifier equals the table-driven step: bounds accepted, identifier/length/content stored in fresh storage, exactly the element's octets consumed, nothing else changed")
			}
			fx.Oblige(st, c.fname+"#step[unknown]", "inv.preserve", Implies(none, And(fx.EqV(hv, cv), Eq(bufOff(st, cx.bufObj), q))), "", "an unknown identifier consumes exactly one octet and changes nothing")
			// objects that existed at the loop head (other elements' storage, input) are unchanged
			var gs []*Term
			for ob, v0 := range head.Heap {
				if ob == a.Obj || ob == cx.bufObj {
					continue
				}
				if v1, ok := st.Heap[ob]; ok {
					gs = append(gs, fx.EqV(v0, v1))
				}
			}
			fx.Oblige(st, c.fname+"#step.frame", "frame", And(gs...), "", "a step modifies no storage that existed before it")
		}
		return &n
	}
	return spec, wrap
}

// stepErr: error condition of the table-driven step at position p (p < n assumed).
func (c *codecCtx) stepErr(d decPos, p *Term) *Term {
	o := d.data.Elem(Add(d.base, p))
	t := Ite(ULe(BVC(8, 0x80), o), LShr(BAnd(o, BVC(8, 0xf0)), BVC(8, 4)), o)
	q := Add(p, BVC(64, 1))
	errc := False
	for i, e := range c.tab.Elements {
		if e.Mandatory {
			continue
		}
		ex := c.expect(i, d, q, o)
		errc = Or(errc, And(Eq(t, BVC(8, uint64(e.IEI))), ex.errc))
	}
	return errc
}

func codecKeys(w *core.World, dir string) []string {
	var keys []string
	for k, fc := range w.Contracts.ByKey {
		if fc.Codec != "" && fc.CodecDir == dir && strings.HasPrefix(k, "(*nasMessage.") {
			keys = append(keys, k)
		}
	}
	sort.Strings(keys)
	return keys
}

// ---------------- table-level lemmas: decoding the encoding of an element returns the element ----------------

// wfElem: well-formedness of an element value with respect to its table row (the premise of C02).
func (c *codecCtx) wfElem(st *sym.State, i int, ev sym.StructV) *Term {
	e := c.tab.Elements[i]
	r := c.reps[i]
	wf := True
	if !e.Mandatory {
		if e.Format == "TV1" {
			wf = And(wf, Eq(LShr(ev.F[r.Data].(sym.Scalar).T, BVC(8, 4)), BVC(8, uint64(e.IEI))))
		} else if r.Iei >= 0 {
			wf = And(wf, Eq(ev.F[r.Iei].(sym.Scalar).T, BVC(8, uint64(e.IEI))))
		}
	}
	if hasLen(e.Format) > 0 {
		L := ev.F[r.Len].(sym.Scalar).T
		wf = And(wf, e.Len.allowed(L))
		if r.Kind == "buffer" {
			sl := ev.F[r.Data].(sym.SliceV)
			wf = And(wf, Eq(sl.Len, ZExt(64, L)), Not(sl.Nil))
		}
	}
	return wf
}

// roundTripLemmas: for every row, the table-driven step applied to ENC_O(m_i) placed at an arbitrary position of
// an arbitrary input dispatches to row i, raises no error, yields m_i and consumes exactly |ENC_O(m_i)| octets.
func (c *codecCtx) roundTripLemmas(w *core.World) []*sym.Oblig {
	fx := w.Cx.NewFnExec(c.fn)
	st := &sym.State{Heap: map[*sym.Object]sym.Value{}, Ghost: map[string]*Term{}}
	var obls []*sym.Oblig
	for i, e := range c.tab.Elements {
		r := c.reps[i]
		s := st.Clone()
		ev := fx.SymValue(s, r.T, "m."+e.Field, 1).(sym.StructV)
		// octets beyond Len of array-backed elements are zero in a decoded element; equality of messages is
		// field-for-field, so the premise includes it
		wf := c.wfElem(s, i, ev)
		if r.Kind == "array" && hasLen(e.Format) > 0 && !(e.Len != nil && len(e.Len.Set) == 1) {
			arr := ev.F[r.Data].(sym.ArrV)
			L := ZExt(64, ev.F[r.Len].(sym.Scalar).T)
			for k := 0; k < r.N; k++ {
				wf = And(wf, Implies(ULe(L, BVC(64, uint64(k))), Eq(arr.C.Elem(BVC(64, uint64(k))), BVC(8, 0))))
			}
		}
		s.Assume(wf)
		// encode the single element at position p of an arbitrary input
		one := *c
		tab := *c.tab
		el := e
		tab.Elements = []Elem{el}
		one.tab = &tab
		one.reps = []*elemRep{{T: r.T, St: r.St, Iei: r.Iei, Len: r.Len, LenW: r.LenW, Data: r.Data, Kind: r.Kind, N: r.N, FieldIx: 0, Ptr: false}}
		segs, _ := one.encSegments(fx, s, sym.StructV{F: []sym.Value{ev}})
		p := w.Cx.Fresh("p", BV(64))
		n := w.Cx.Fresh("n", BV(64))
		s.Assume(ULt(n, BVC(64, 1<<40)))
		var data sym.Content = sym.CSym{A: w.Cx.Fresh("in", Arr(64, 8))}
		ln := p
		for _, sg := range segs {
			data = sym.CopyC(data, ln, sg.c, sg.off, sg.n)
			ln = Add(ln, sg.n)
		}
		s.Assume(And(ULe(p, n), ULe(ln, n), ULe(p, ln)))
		d := decPos{data: data, base: BVC(64, 0), n: n}
		name := fmt.Sprintf("table.%s#roundtrip[%s]", c.name, e.Field)
		mk := func(goal *Term, info string) {
			obls = append(obls, &sym.Oblig{Name: name, Kind: "lemma", Fn: "table." + c.name, Assumes: append([]*Term(nil), s.PC...), Goal: goal, Info: info})
			obls = append(obls, &sym.Oblig{Name: name + ".cover", Kind: "cover", Fn: "table." + c.name, Assumes: append([]*Term(nil), s.PC...), Goal: True, Cover: true, Info: "premise of the lemma is satisfiable"})
		}
		if e.Mandatory {
			ex := c.expect(i, d, p, nil)
			mk(And(Not(ex.errc), ex.match(fx, s, ev, &sym.State{Heap: map[*sym.Object]sym.Value{}}), Eq(Add(p, ex.advance), ln)), "decoding the encoding of a well-formed mandatory element yields the element and consumes exactly its octets")
			continue
		}
		o := data.Elem(p)
		t := Ite(ULe(BVC(8, 0x80), o), LShr(BAnd(o, BVC(8, 0xf0)), BVC(8, 4)), o)
		q := Add(p, BVC(64, 1))
		ex := c.expect(i, d, q, o)
		mk(And(Eq(t, BVC(8, uint64(e.IEI))), Not(ex.errc), ex.match(fx, s, ev, &sym.State{Heap: map[*sym.Object]sym.Value{}}), Eq(Add(q, ex.advance), ln)), "the step on the encoding of a well-formed optional element dispatches to its row, yields the element and consumes exactly its octets")
	}
	return obls
}
