package props

import (
	"os/exec"

	"golang.org/x/tools/go/ssa"

	"verif/engine/internal/core"
	"verif/engine/internal/sym"
)

func init() { Registry["C04"] = c04 }

// codecJobs builds the functional verification jobs of all generated encoders and decoders against the tables.
func CodecJobs(w *core.World, rep *core.Report, dirs ...string) ([]Job, []*codecCtx) {
	tabs, err := LoadTables()
	if err != nil {
		rep.Broken = "spec/messages.json: " + err.Error()
		return nil, nil
	}
	// spec sanity: tables agree with upstream's spec-derived samples
	if out, err := exec.Command("python3", "/verif/tools/check_tables.py").CombinedOutput(); err != nil {
		rep.Broken = "spec-sanity: message tables disagree with testdata samples: " + string(out)
		return nil, nil
	}
	rep.Outcomes = append(rep.Outcomes, core.Outcome{Name: "spec.messages#sanity[testdata]", Kind: "spec-sanity", Fn: "spec/messages.json", Status: "discharged", Backend: "ground-eval", Members: 88,
		Info: "all 88 Min*/Max* samples parse with the tables, every element at its minimum/maximum length"})
	var jobs []Job
	var ctxs []*codecCtx
	wraps := map[*ssa.Function]func(*sym.LoopSpec) *sym.LoopSpec{}
	want := map[string]bool{}
	for _, d := range dirs {
		want[d] = true
	}
	for _, dir := range []string{"encode", "decode"} {
		if !want[dir] {
			continue
		}
		for _, k := range codecKeys(w, dir) {
			fc := w.Contracts.ByKey[k]
			c, err := newCodecCtx(w, tabs, fc)
			if err != nil {
				rep.Outcomes = append(rep.Outcomes, core.Outcome{Name: k + "#binding", Kind: "lemma", Fn: k, Status: "failed", Backend: "syntactic", Info: err.Error(), Members: 1})
				continue
			}
			ctxs = append(ctxs, c)
			if dir == "encode" {
				jobs = append(jobs, Job{Fn: fc.Fn, Spec: c.encoderSpec()})
			} else {
				spec, wrap := c.decoderHooks()
				wraps[fc.Fn] = wrap
				jobs = append(jobs, Job{Fn: fc.Fn, Spec: spec})
			}
		}
	}
	base := w.Cx.Loops
	w.Cx.Loops = func(fn *ssa.Function, ord int) *sym.LoopSpec {
		ls := base(fn, ord)
		if wr, ok := wraps[fn]; ok && ls != nil && ord == 0 {
			return wr(ls)
		}
		return ls
	}
	return jobs, ctxs
}

func c04(w *core.World, rep *core.Report) {
	std(rep)
	rep.Explain = "Each generated encoder is proved to append exactly ENC_T(a) (header and mandatory elements in V/LV/LV-E form, then each present optional element in table order with stored identifier and T/TV/TLV/TLV-E framing) to any pre-existing buffer; each generated decoder is proved equal to the table-driven decoder: the mandatory part yields the table's values and errors, and one iteration of the optional-part loop from an arbitrary state equals one table-driven step (identifier dispatch incl. the half-octet rule, length bounds accepted and rejected exactly, truncation is an error, identifier/length/content stored in fresh storage, exactly the element's octets consumed, last duplicate wins, unknown identifier skips one octet). ENC_T/DEC_T are built from spec/messages.json."
	jobs, ctxs := CodecJobs(w, rep, "encode", "decode")
	if rep.Broken != "" {
		return
	}
	seen := map[string]bool{}
	for _, c := range ctxs {
		if !seen[c.name] {
			seen[c.name] = true
			rep.Outcomes = append(rep.Outcomes, c.tableSideConditions()...)
		}
	}
	RunJobs(w, rep, jobs)
	rep.Floor = 3000
	rep.AddUnique(&rep.Assumptions,
		"the oracle is /verif/spec/messages.json (45 tables, 357 element slots): extracted once from the pinned tree, corrected where upstream's spec-derived Max* samples show a tighter bound, and checked on every run against all 88 testdata samples; equality of the file with the TS 24.501 tables beyond that is an audit, not a proof",
		"the encoder's postcondition uses the stored Iei/Len of each element (what is written); that they equal the table's identifier and the content length is the well-formedness premise of C02")
}
